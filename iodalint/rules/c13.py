"""C13 -- trajectories keep every frame, in order (structural clauses)."""

from __future__ import annotations

import ast

from .. import AnalysisError
from ..astutil import single_def, bind_call, walk_stmts
from ..consumption import Consumption, Recorder, State, _handler_catches
from ..excflow import ExcFlow
from ..littype import lit_locals
from ..model import src_of

PROP = "C13"
LEVEL = "other"
TECHNIQUE = "static analysis: min-plus line-consumption dataflow locating StopIteration sources relative to the frame boundary; exception-flow of swallowed LoadErrors with flag-sensitive abstract states; loop-shape and call-graph rules for laziness and single frame parser"
EXPLANATION = (
    "Static decision of the structural clauses of C13: (R1) api.load_many is one loop over the format "
    "generator that yields unconditionally; (R2) in every format load_many a handler that turns "
    "StopIteration into a normal end can only be entered from the frame boundary: every StopIteration "
    "source reachable in the guarded region has minimum net line consumption 0 since the start of the "
    "frame; (R3) where load_many also swallows LoadError, every LoadError source of the frame parser is the "
    "'nothing found yet' case (raised in the parser itself under a found-flag that is still False); (R4) "
    "dump_many wraps the iterable once, draws the first frame once, and otherwise consumes it only in a "
    "for-loop inside the checking generator; the format dump_many functions are a single in-order loop; "
    "(R6) load_many obtains every frame from the module's own load_one and dump_many writes through "
    "dump_one; (R7) a frame loop ends normally only at end of input (or at a blank count line in XYZ-like "
    "formats, frozen table).  Declined: equality of each frame with a single load (values); titles that "
    "look like separators (data-dependent)."
)
TECHNIQUE += '; counted-loop consumption idiom check'
EXPLANATION += ' Added: (R8) counted record loops read lines with next(lit) (raises at end of file), never through zip/islice over the line iterator or next(lit, default).'
TECHNIQUE += '; zip-driven frame-loop rule; all-paths-raise on the API funnel'
EXPLANATION += ' Added: (R9) frames yielded from zip() over several arrays come from a materialised sequence whose own length is checked / announced, or from zip(strict=True); R2 also requires every handler of api.load_many to raise (a StopIteration leaving a format generator arrives as RuntimeError: PEP 479).'
TRUSTED = ["CPython ast parser", "PEP 479", "a for-loop consumes its iterator lazily, one element per iteration"]

CONCAT_FORMATS = ("xyz", "extxyz", "pdb", "mol2", "sdf", "gromacs")
# content-based normal terminations that are part of the format (frozen, one line of reason each)
MATERIALIZERS = {"list", "tuple", "sorted", "len", "reversed", "set", "frozenset", "sum", "max", "min", "dict"}
EXPLANATION += ' (R10) in the PDB frame parser only END / ENDMDL switch off the missing-END warning (the path condition of the flag assignment is evaluated for every PDB record name).'
TECHNIQUE += '; finite-domain evaluation of the terminator flag'
# --- metadata added for batch 7
TECHNIQUE += '; who-may-swallow rule for StopIteration inside frame parsers; look-ahead transparency on a model LineIterator'
EXPLANATION += ' Added: (R11) the look-ahead of every frame loop (blank-line skipping, push-back) leaves the input unchanged, evaluated on a model LineIterator; (R12) a PDB CONECT record naming an atom outside the frame raises (no membership guard around the bond store); (R13) in the frame parsers of the trajectory formats a `try` whose handler accepts StopIteration without raising covers record-head reads only -- never a call that is handed the iterator (one frozen exception: the FCHK field reader, whose dropped field raises downstream).'
# --- end metadata batch 7
# --- metadata added for batch 8
TECHNIQUE += '; state clauses borrowed from C16'
EXPLANATION += ' R13 treats `next(lit, default)` inside a record like a tolerant `try` (legitimate only as a loop-head read whose default ends the loop) and allows a record-head helper inside a tolerant `try`; the frame parser may be a function load_one hands its arguments to unchanged (R6, R11). Added: (R14, R15) nothing is carried from one frame to the next through module-level objects or memoised results (C16-R1 / R3).'
# --- end metadata batch 8
# --- metadata added after the round-2 refactoring twins
TECHNIQUE += '; generator evaluation of the frame loops with a recording frame parser'
EXPLANATION += " R6: each frame-concatenation load_many is interpreted to its end on a model line iterator with the frame parser replaced by a recorder (one line per frame, a marked dictionary as result): it yields exactly the parser's results, in order, and hands on the iterator and its own arguments -- whether the yield is written `yield load_one(...)` or through a local. The look-ahead rules (R7 / R11) stop at the first call of the frame parser, wherever it stands."
# --- end metadata round-2 twins
# --- metadata added after the round-4 refactoring twins
EXPLANATION += " R9: the length of the materialised zip may be kept in a local before it is compared / announced. R16 (added): two frames written by the module's dump_many come back from its load_many as two frames in order (XYZ, SDF, MOL2, PDB evaluated as wholes on model molecules of 2 and 3 atoms)."
# --- end metadata round-4 twins


def run(ctx):
    prog = ctx.prog
    lits = lit_locals(prog)
    cons = Consumption(prog, lits)
    ef = ExcFlow(prog)
    ctx.clauses_decided = ["R1 API loop yields every frame", "R2 no silent end in mid-frame", "R3 swallowed LoadError only when nothing was found", "R4 dump_many lazy and single-pass", "R6 one frame parser / one frame writer", "R7 normal end only at end of input"]
    ctx.clauses_declined = ["equality of each frame with a single load (values)", "titles that look like separators"]
    fm = prog.format_modules()
    iodata_cls = prog.cls("iodata.iodata.IOData")

    # ------------------------------------------------------------------ R1
    ctx.rule("R1", "api.load_many yields every frame once, in order", "a filter / early exit drops or reorders frames")
    lm = prog.func("iodata.api.load_many")
    check_api_frame_loop(ctx, lm)

    # ------------------------------------------------------------------ R2 / R3 / R6 / R7 per format
    ctx.rule("R2", "StopIteration ends a trajectory only at a frame boundary", "a file cut inside its last frame silently yields fewer frames")
    ctx.rule("R3", "a swallowed LoadError is the 'no further frame' case", "a malformed frame ends the sequence silently")
    ctx.rule("R6", "one frame parser / one frame writer per format", "load_many / dump_many frames differ from single loads / saves")
    ctx.rule("R7", "a frame loop ends normally only at end of input", "frames after a legal but unusual record are dropped")
    ctx.rule("R4", "dump_many is lazy and single-pass", "frames are materialised, re-ordered or consumed twice")
    nlm = 0
    for short, mod in fm.items():
        g = prog.format_op(short, "load_many")
        if g is None:
            continue
        nlm += 1
        flits = cons.lit_names(g)
        fi = cons.finfo(g)
        rec = Recorder()
        cons.walk(g, g.body, State({fi.init: 0}), frozenset(), flits, rec)
        # frame loop: the loop containing a yield
        floops = [n for n in g.own_nodes() if isinstance(n, (ast.While, ast.For)) and any(isinstance(x, ast.Yield) for s in n.body for x in ast.walk(s))]
        # innermost such loop
        floop = None
        for l in floops:
            if not any(l2 is not l and any(l2 is x for s in l.body for x in ast.walk(s)) for l2 in floops):
                floop = l
        if floop is None:
            ctx.violate("R6", f"{short}.load_many has no frame loop containing a yield", g, g.node, construct="frame loop")
            continue
        # R2: sources swallowed by handlers inside load_many, measured from the start of a frame iteration
        rec2 = Recorder()
        start = State({fi.init: 0})
        if isinstance(floop, ast.While):
            start = cons.refine(fi, start, floop.test, True)
        # handlers that enclose the loop also guard its body
        pm = prog.parents(g)
        enclosing = []
        cur = floop
        while id(cur) in pm:
            par = pm[id(cur)]
            if isinstance(par, ast.Try) and any(cur is s for s in par.body):
                enclosing.append(par)
            cur = par
        cons.walk(g, floop.body, start, frozenset(), flits, rec2)
        swallowed = list(rec2.swallowed)
        for t in enclosing:
            for h in t.handlers:
                if _handler_catches(h, "StopIteration"):
                    if not any(isinstance(x, ast.Raise) for hs in h.body for x in ast.walk(hs)):
                        for k, v in rec2.si.items():
                            swallowed.append((t, h, k, v, g.qualname))
                    break
        own_swallow = [x for x in swallowed if x[4] == g.qualname]
        if not own_swallow:
            ctx.ok("R2", f"{short}.load_many has no handler that swallows StopIteration from the frame parser", g.where)
        bad = {}
        good = 0
        for t, h, key, before, _fq in own_swallow:
            if before < -1000:
                raise AnalysisError(f"{short}.load_many: unbounded push-back before the StopIteration source {key[0]}:{key[1]}; cannot decide whether it is at the frame boundary")
            if before >= 1:
                bad.setdefault(id(h), (h, []))[1].append((key, before))
            else:
                good += 1
        for hid, (h, lst) in bad.items():
            lst.sort()
            ctx.violate(
                "R2",
                f"{short}.load_many: `except {src_of(h.type) if h.type is not None else ''}` ends the sequence normally for a StopIteration raised in mid-frame "
                f"({len(lst)} source(s), e.g. {lst[0][0][0]}:{lst[0][0][1]} after >= {lst[0][1]} consumed line(s))",
                g, h, construct=f"except {src_of(h.type) if h.type is not None else ''}: swallows mid-frame StopIteration",
                witness=[f"{k[0]}:{k[1]} min lines consumed before = {b}" for k, b in lst[:8]], entry=g.qualname,
            )
        if own_swallow and not bad:
            ctx.ok("R2", f"{short}.load_many: all {good} swallowed StopIteration source(s) are at the frame boundary", g.where)

        # R3: swallowed LoadError
        lerr_handlers = []
        for n in g.own_nodes():
            if isinstance(n, ast.Try):
                for h in n.handlers:
                    if _handler_catches(h, "LoadError") and not any(isinstance(x, ast.Raise) for hs in h.body for x in ast.walk(hs)):
                        lerr_handlers.append((n, h))
        for t, h in lerr_handlers:
            srcs = [s for s in ef.stmts_escape(g, t.body) if s[0] == "LoadError"]
            # the frame parser(s) called in the try body
            parsers = [c for cs in g.calls for c in cs.callees if cs.cls is None and any(cs.node is x for s in t.body for x in ast.walk(s))]
            allowed = 0
            for s in sorted(srcs):
                okk = False
                why = "raised outside the frame parser itself"
                for pf in parsers:
                    if s[1] == pf.qualname and s[3] == "raise":
                        prec = Recorder()
                        pfi = cons.finfo(pf)
                        cons.walk(pf, pf.body, State({pfi.init: 0}), frozenset(), cons.lit_names(pf), prec)
                        for sid, (stn, fn, state) in prec.raises.items():
                            if stn.lineno == s[2] and fn is pf:
                                realflags = [i for i, nm in enumerate(pfi.flags) if not nm.startswith("@")]
                                settrue = {
                                    t2.id for n2 in pf.own_nodes() if isinstance(n2, ast.Assign) and isinstance(n2.value, ast.Constant) and n2.value.value is True
                                    for t2 in n2.targets if isinstance(t2, ast.Name)
                                }
                                for i in realflags:
                                    if pfi.flags[i] in settrue and state and all(k[i] is False for k in state):
                                        okk = True
                                if not okk:
                                    why = "not guarded by a found-flag that is still False"
                                else:
                                    # ... and it is the verdict after the input ran out, not a complaint about a record:
                                    # the raise stands after the record loop, not inside it
                                    pmf_ = prog.parents(pf)
                                    cur_ = stn
                                    while id(cur_) in pmf_:
                                        cur_ = pmf_[id(cur_)]
                                        if isinstance(cur_, (ast.For, ast.While)):
                                            okk = False
                                            why = "raised inside the record loop (a malformed header or record, not the end of the input)"
                                            break
                if okk:
                    allowed += 1
                    ctx.ok("R3", f"{short}: LoadError at {s[1]}:{s[2]} is raised only while nothing was found", f"{g.module.relpath}:{h.lineno}")
                else:
                    ctx.violate("R3", f"{short}.load_many swallows the LoadError from {s[1]}:{s[2]} ({why}): a malformed frame ends the sequence silently", g, h, construct=f"swallows LoadError <- {s[1]}", witness=[f"{s[1]}:{s[2]}"], entry=g.qualname)

        # R6 / R7 for the concatenation formats
        if short in CONCAT_FORMATS:
            check_concat_yields(ctx, "R6", short, g, prog.format_op(short, "load_one"), floop)
            # R7: normal ends
            for n in [x for s in [floop] for x in ast.walk(s) if isinstance(x, (ast.Return, ast.Break))] + [x for x in g.own_nodes() if isinstance(x, ast.Return) and not any(x is y for y in ast.walk(floop))]:
                cur, in_handler, conds = n, False, []
                while id(cur) in pm:
                    par = pm[id(cur)]
                    if isinstance(par, ast.ExceptHandler):
                        in_handler = True
                    if isinstance(par, ast.If):
                        conds.append(par.test)
                    if isinstance(par, (ast.While, ast.For)) and par is not floop and isinstance(n, ast.Break):
                        break
                    cur = par
                if in_handler:
                    ctx.ok("R7", f"{short}.load_many: `{type(n).__name__.lower()}` inside an end-of-input handler", f"{g.module.relpath}:{n.lineno}")
                    continue
                # whether file content may end the sequence here is decided by evaluation (check_sequence_end below)
                ctx.ok("R7", f"{short}.load_many: `{type(n).__name__.lower()}` outside a handler: judged on the evaluated look-ahead", f"{g.module.relpath}:{n.lineno}", sample=False)
            for n in [x for s in floop.body for x in ast.walk(s) if isinstance(x, ast.Continue)]:
                ctx.violate("R7", f"{short}.load_many skips frames with `continue`", g, n)
    ctx.floor("R2", nlm, 7, "format load_many generators")
    # the API funnel itself: a StopIteration that leaves a format generator arrives as RuntimeError (PEP 479); no handler
    # of api.load_many may end the sequence quietly on it
    from .c07 import _ends_raising

    alm = prog.func("iodata.api.load_many")
    for t in [n for n in alm.own_nodes() if isinstance(n, ast.Try)]:
        for h in t.handlers:
            only_si = isinstance(h.type, ast.Name) and h.type.id == "StopIteration"
            if only_si or _ends_raising(h.body):
                ctx.ok("R2", f"api.load_many: handler `except {src_of(h.type) if h.type is not None else ''}` " + ("is unreachable for a generator body (PEP 479)" if only_si else "always raises"), f"{alm.module.relpath}:{h.lineno}", sample=False)
            else:
                ctx.violate("R2", f"api.load_many: the handler `except {src_of(h.type) if h.type is not None else ''}` can end the trajectory without an error: a file cut inside a frame yields fewer frames silently", alm, h)

    # ------------------------------------------------------------------ R8
    ctx.rule("R8", "counted record loops consume lines with next(), which raises at end of file", "a file cut inside a counted block yields a partially filled frame without warning or error")
    roots = []
    for short in fm:
        for op in ("load_one", "load_many"):
            g = prog.format_op(short, op)
            if g:
                roots.append(g)
    ncounted = 0
    for f in prog.callees_closure(roots):
        flits = cons.lit_names(f)
        if not flits:
            continue
        for n in f.own_nodes():
            if isinstance(n, (ast.For, ast.comprehension)):
                it = n.iter
                if isinstance(it, ast.Call):
                    nm = it.func.id if isinstance(it.func, ast.Name) else getattr(it.func, "attr", "")
                    uses_lit = any(isinstance(a, ast.Name) and a.id in flits for a in it.args)
                    if uses_lit and nm in ("zip", "islice", "takewhile", "zip_longest", "enumerate") and (nm != "enumerate"):
                        ctx.violate("R8", f"`{src_of(it)}` iterates the line iterator in a bounded loop that ends silently when the file runs out: the remaining records keep their initial values", f, it)
                    # counted loop: for i in range(n): ... next(lit)
                    if nm == "range" and isinstance(n, ast.For):
                        body_calls = [x for s_ in n.body for x in ast.walk(s_) if isinstance(x, ast.Call)]
                        consumes = [x for x in body_calls if (getattr(x.func, "id", "") == "next" and x.args and isinstance(x.args[0], ast.Name) and x.args[0].id in flits)]
                        if consumes:
                            ncounted += 1
                            two = [x for x in consumes if len(x.args) > 1]
                            if two:
                                ctx.violate("R8", "a counted record loop reads lines with next(lit, default): the end of the file is not noticed", f, two[0])
                            else:
                                ctx.ok("R8", f"{f.name}: counted loop `for {src_of(n.target)} in {src_of(it)}` reads with next(lit)", f"{f.module.relpath}:{n.lineno}", sample=(ncounted % 8 == 1))
    ctx.floor("R8", ncounted, 15, "counted record loops")

    # ------------------------------------------------------------------ R9
    ctx.rule("R9", "frames driven by zip() over several arrays: the shortest array cannot drop frames unnoticed", "steps present in one array but missing from another are dropped silently, or the announced frame count differs from the frames yielded")
    nzip = 0
    for short, mod in fm.items():
        g = prog.format_op(short, "load_many")
        if g is None:
            continue
        for lp in [n for n in g.own_nodes() if isinstance(n, ast.For) and any(isinstance(x, ast.Yield) for s_ in n.body for x in ast.walk(s_))]:
            it = lp.iter
            if isinstance(it, ast.Call) and getattr(it.func, "id", "") == "enumerate" and it.args:
                it = it.args[0]
            src = it
            name = None
            if isinstance(it, ast.Name):
                name = it.id
                d = single_def(g, it.id)
                # defined inside an outer loop: take the assignment in the enclosing body
                if d is None:
                    cands = [n.value for n in g.own_nodes() if isinstance(n, ast.Assign) and len(n.targets) == 1 and isinstance(n.targets[0], ast.Name) and n.targets[0].id == it.id]
                    d = cands[-1] if len(cands) == 1 else None
                src = d if d is not None else it
            inner = src
            materialised = False
            if isinstance(inner, ast.Call) and getattr(inner.func, "id", "") in ("list", "tuple") and inner.args:
                materialised = True
                inner = inner.args[0]
            if not (isinstance(inner, ast.Call) and getattr(inner.func, "id", "") == "zip" and len(inner.args) >= 2):
                continue
            nzip += 1
            strict = any(k.arg == "strict" and isinstance(k.value, ast.Constant) and k.value.value is True for k in inner.keywords)
            # locals that hold len(<the materialised sequence>)
            len_names = {n_.targets[0].id for n_ in g.own_nodes() if isinstance(n_, ast.Assign) and len(n_.targets) == 1 and isinstance(n_.targets[0], ast.Name) and isinstance(n_.value, ast.Call) and getattr(n_.value.func, "id", "") == "len" and n_.value.args and isinstance(n_.value.args[0], ast.Name) and n_.value.args[0].id == name and single_def(g, n_.targets[0].id) is not None}
            measured = name is not None and materialised and any(isinstance(c, ast.Compare) and any((isinstance(x, ast.Call) and getattr(x.func, "id", "") == "len" and x.args and isinstance(x.args[0], ast.Name) and x.args[0].id == name) or (isinstance(x, ast.Name) and x.id in len_names) for x in ast.walk(c)) for c in g.own_nodes())
            counts_other = [x for n in g.own_nodes() if isinstance(n, ast.Dict) for k, v in zip(n.keys, n.values) if isinstance(k, ast.Constant) and isinstance(k.value, str) and k.value.startswith("n") for x in ast.walk(v) if isinstance(x, ast.Call) and getattr(x.func, "id", "") == "len" and x.args and isinstance(x.args[0], ast.Name) and x.args[0].id != name and any(isinstance(a, ast.Name) and a.id == x.args[0].id for a in ast.walk(inner))]
            if strict or measured:
                if counts_other:
                    ctx.violate("R9", f"{short}.load_many announces a count `{src_of(counts_other[0])}` taken from one zipped array, not from the zipped sequence whose items are yielded", g, counts_other[0])
                else:
                    ctx.ok("R9", f"{short}.load_many: the zipped frame sequence is " + ("strict" if strict else f"materialised and its length `len({name})` is checked / announced"), f"{g.module.relpath}:{lp.lineno}")
            else:
                ctx.violate("R9", f"{short}.load_many yields frames from `zip(...)` over {len(inner.args)} arrays without measuring the zipped sequence (zip stops at the shortest array: missing steps are dropped silently)", g, inner)
    ctx.floor("R9", nzip, 1, "zip-driven frame loops")
    check_terminator_flag(ctx)
    ctx.rule("R11", "the look-ahead of a frame loop leaves the input unchanged (evaluated on a model LineIterator)", "lines put back in the wrong order, not at all or twice: the frame parser reads the count where the title is, a legal frame is rejected or mis-read")
    check_lookahead_transparency(ctx, "R11")
    ctx.rule("R13", "inside a frame parser, the end of the input is taken as a normal end only where a new record would start", "a handler that also covers the record readers: a file cut inside an ATOM / BOND block yields a partial frame (or silently one frame fewer) without warning")
    check_boundary_handlers(ctx, "R13")
    # "each frame carries that frame's data exactly as a single-frame file would load": nothing may be carried from one
    # frame to the next through module-level objects or memoised results (the clauses C16 decides)
    ctx.borrow("c16", {"R1": "R14", "R3": "R15"})
    ctx.rule("R12", "a PDB CONECT record that names an atom outside the frame is an error, not a silently dropped bond", "a frame whose bond table refers to a missing atom loads as a complete frame with fewer bonds")
    from .c03 import check_pdb_conect_lookup

    check_pdb_conect_lookup(ctx, "R12")
    check_sequence_end(ctx, "R7")
    ctx.rule("R16", "two frames written by the module's dump_many come back from its load_many as two frames, in order, each with its own atoms (evaluated on model molecules)", "a terminator the reader does not expect, a frame separator swallowed or a count carried over: frames are merged, dropped or exchanged")
    check_two_frame_pairs(ctx, "R16")

    # dump side of R6
    ndm = 0
    for short, mod in fm.items():
        g = prog.format_op(short, "dump_many")
        if g is None:
            continue
        ndm += 1
        do = prog.format_op(short, "dump_one")
        loops = [n for n in g.own_nodes() if isinstance(n, (ast.For, ast.While))]
        itp = g.posparams[1]
        okk = len(loops) == 1 and isinstance(loops[0], ast.For) and isinstance(loops[0].iter, ast.Name) and loops[0].iter.id == itp and isinstance(loops[0].target, ast.Name)
        if okk:
            lp = loops[0]
            calls = [cs for cs in g.calls if do in cs.callees and any(cs.node is x for s in lp.body for x in ast.walk(s))]
            ctrl = [x for s in lp.body for x in ast.walk(s) if isinstance(x, (ast.If, ast.Continue, ast.Break, ast.Return, ast.Try))]
            okk = len(calls) == 1 and not ctrl
            if okk:
                b, e, okb = bind_call(calls[0].node, do)
                okk = isinstance(b.get(do.posparams[0]), ast.Name) and b[do.posparams[0]].id == g.posparams[0] and isinstance(b.get(do.posparams[1]), ast.Name) and b[do.posparams[1]].id == lp.target.id
                extra_params = [p for p in g.posparams[2:] if p in do.posparams and not (isinstance(b.get(p), ast.Name) and b[p].id == p)]
                okk = okk and not extra_params
        uses = [n for n in g.own_nodes() if isinstance(n, ast.Name) and n.id == itp and isinstance(n.ctx, ast.Load)]
        if okk and len(uses) == 1:
            ctx.ok("R6", f"{short}.dump_many: for data in datas: dump_one(f, data, ...) -- single pass, in order", g.where)
            ctx.ok("R4", f"{short}.dump_many consumes its iterable with exactly one for-loop", g.where)
        else:
            ctx.violate("R6", f"{short}.dump_many is not a single in-order loop writing each frame through the module's dump_one", g, g.node, construct="dump_many loop")
    dm = prog.func("iodata.api.dump_many")
    itp = dm.posparams[0]
    wraps = draws = 0
    gens = [g for g in dm.nested.values() if g.is_generator]
    for f in [dm] + list(dm.nested.values()):
        pmf = prog.parents(f)
        for n in f.own_nodes():
            if isinstance(n, ast.Name) and n.id == itp and isinstance(n.ctx, ast.Load):
                par = pmf.get(id(n))
                if isinstance(par, ast.Call) and isinstance(par.func, ast.Name) and n in par.args:
                    fnm = par.func.id
                    if fnm == "iter" and len(par.args) == 1:
                        wraps += 1
                        continue
                    if fnm == "next" and f is dm:
                        draws += 1
                        continue
                    if fnm in MATERIALIZERS:
                        ctx.violate("R4", f"dump_many applies {fnm}() to the caller's iterable (materialises / consumes it eagerly)", f, par)
                        continue
                    ctx.violate("R4", f"dump_many passes the caller's iterable to {fnm}()", f, par)
                    continue
                if isinstance(par, ast.For) and par.iter is n:
                    if f in gens:
                        ctx.ok("R4", "the iterable is consumed by a for-loop inside the checking generator (lazily)", f"{f.module.relpath}:{par.lineno}")
                    else:
                        ctx.violate("R4", "dump_many iterates the caller's iterable eagerly, outside the checking generator", f, par)
                    continue
                if isinstance(par, (ast.Starred, ast.comprehension)):
                    ctx.violate("R4", "dump_many unpacks / comprehends the caller's iterable eagerly", f, par)
                    continue
                if isinstance(par, ast.Assign):
                    continue
                ctx.violate("R4", f"unexpected use of the caller's iterable: {src_of(par)[:60]}", f, n)
    if wraps == 1 and draws == 1:
        ctx.ok("R4", "iterable wrapped once with iter() and advanced once for the pre-check", dm.where)
    else:
        ctx.violate("R4", f"the iterable is wrapped {wraps}x with iter() and advanced {draws}x with next() (expected 1 and 1)", dm, dm.node, construct="iter/next discipline")
    ctx.floor("R6", ndm, 4, "format dump_many functions")


PDB_RECORDS = ["ATOM", "HETATM", "TER", "CONECT", "MODEL", "TITLE", "COMPND", "REMARK", "CRYST1", "MASTER", "ANISOU", "END", "ENDMDL"]
PDB_TERMINATORS = {"END", "ENDMDL"}


def check_terminator_flag(ctx):
    """R10: the flag that suppresses the missing-END warning of the PDB frame parser is raised by END / ENDMDL only.

    The path condition of every `flag = True` is evaluated for each PDB record name (finite domain).
    """
    from ..accessors import AccessorEval, Raised, _Expr
    from ..symarr import NotSymbolic

    prog = ctx.prog
    ctx.rule("R10", "only the frame terminator switches off the 'file ended without END' warning", "a frame cut after another record (TER, CONECT...) is returned as complete, without warning")
    f = prog.func("iodata.formats.pdb.load_one")
    pm = prog.parents(f)
    # the flag: `if not <flag>: warn(...)`
    flags = []
    for n in f.own_nodes():
        if isinstance(n, ast.If) and isinstance(n.test, ast.UnaryOp) and isinstance(n.test.op, ast.Not) and isinstance(n.test.operand, ast.Name):
            if any(isinstance(x, ast.Call) and getattr(x.func, "id", "") == "warn" for s_ in n.body for x in ast.walk(s_)):
                flags.append(n.test.operand.id)
    if len(flags) != 1:
        raise AnalysisError("pdb.load_one: cannot find the `if not <flag>: warn(...)` statement for a missing END record")
    flag = flags[0]
    sets = [n for n in f.own_nodes() if isinstance(n, ast.Assign) and any(isinstance(t, ast.Name) and t.id == flag for t in n.targets) and isinstance(n.value, ast.Constant) and n.value.value is True]
    if not sets:
        ctx.violate("R10", f"`{flag}` is never set: the warning is issued for every file", f, f.node, construct="terminator flag never set")
        return
    linevar = None
    bad = []
    try:
        for st in sets:
            conds = []
            cur = st
            while id(cur) in pm:
                par = pm[id(cur)]
                if isinstance(par, ast.If):
                    conds.append((par.test, any(cur is b for b in par.body)))
                cur = par
            names = {x.id for c, _ in conds for x in ast.walk(c) if isinstance(x, ast.Name)}
            lv = [n_ for n_ in names if n_ in ("line",) or n_.startswith("line")]
            linevar = lv[0] if lv else None
            if linevar is None:
                ctx.violate("R10", f"`{flag} = True` does not depend on the record being read", f, st)
                continue
            others = sorted(names - {linevar})
            for rec in PDB_RECORDS:
                for vals in ([True], [False]) if others else ([None],):
                    env = {linevar: rec.ljust(6) + " " * 70 + "\n"}
                    for o in others:
                        env[o] = vals[0]
                    ev = AccessorEval(prog, None)
                    ev.module = f.module
                    ok_path = True
                    for c, pos in conds:
                        v = bool(_Expr(env, ev).eval(c))
                        if v != pos:
                            ok_path = False
                            break
                    if ok_path and rec not in PDB_TERMINATORS:
                        bad.append((rec, st))
    except (NotSymbolic, Raised) as exc:
        raise AnalysisError(f"pdb.load_one: the condition that sets `{flag}` is outside the evaluation whitelist: {exc}") from exc
    if bad:
        recs = sorted({r for r, _ in bad})
        ctx.violate("R10", f"pdb.load_one sets `{flag}` on {recs} records: a frame that ends after such a record (file cut before END / ENDMDL) is returned without the missing-END warning", f, bad[0][1])
    else:
        ctx.ok("R10", f"pdb.load_one: `{flag}` is set only for END / ENDMDL among {len(PDB_RECORDS)} record names; every other end of input gives the warning", f"{f.module.relpath}:{sets[0].lineno}")


# formats in which the first line of a frame may legally be blank (an empty title): blank lines met while looking for
# the next frame belong to that frame and must all be put back
#: formats in which a blank line where a frame would start ends the sequence (reviewed: the first line of a frame is
#: its atom count, which cannot be blank; trailing blank lines are common).  Everywhere else (PDB, MOL2: the frame
#: parser itself skips blank lines between records; SDF, GRO: the title may be blank) a blank line ends nothing.
BLANK_LINE_ENDS = {"xyz": "the first line of a frame is its atom count", "extxyz": "the first line of a frame is its atom count"}
BLANK_FIRST_LINE = {"sdf": "the title line of a molfile may be empty", "gromacs": "the title line of a gro frame may be empty"}


LOOKAHEAD_FEEDS = {
    "a frame": ["T\n", "2\n", "a\n", "b\n", "T2\n"],
    "a frame whose first line is not a number": ["3x\n", "*\n", "a\n"],
    "blank lines, then a frame": ["\n", "  \n", "T\n", "2\n", "a\n"],
    "one blank line, then a frame": ["\n", "T\n", "2\n"],
    "empty input": [],
    "blank lines only": ["\n", " \n"],
}


def check_concat_yields(ctx, rid, short, g, lo1, floop):
    """A frame loop over concatenated one-frame files yields exactly what the format's frame parser returns, frame by
    frame, and hands its own arguments on: the generator is evaluated to its end on a model line iterator with the frame
    parser replaced by a recorder that takes one line per frame and returns a marked object."""
    from ..accessors import AccessorEval, Raised, Rec
    from ..symarr import NotSymbolic

    prog = ctx.prog
    licls = prog.cls("iodata.utils.LineIterator")
    parsers = {lo1, frame_parser(lo1)}
    verdicts = []
    for end_signal in ("StopIteration", "LoadError"):
        lit = Rec(licls, filename="FILE", fh=iter(["frame 0\n", "frame 1\n"]), lineno=0, stack=[])
        frames, calls = [], []

        def parse(a, k, lit=lit, frames=frames, calls=calls, end_signal=end_signal, which=None):
            calls.append((which, list(a), dict(k)))
            st = lit.fields["stack"]
            if st:
                st.pop()
            else:
                try:
                    next(lit.fields["fh"])
                except StopIteration:
                    raise Raised(end_signal) from None
            lit.fields["lineno"] += 1
            frames.append({"frame": len(frames)})
            return frames[-1]

        ev = AccessorEval(prog, licls, limit=4000)
        ev.module = g.module
        ev.stubs = {p_.qualname: (lambda a, k, p_=p_: parse(a, k, which=p_)) for p_ in parsers}
        extra = {p_: f"<{p_}>" for p_ in g.posparams[1:]}
        ev.collect_yields = []
        ended = True
        try:
            ev.run_free(g, [lit], dict(extra))
        except Raised:
            ended = False  # how the sequence ends (and what is swallowed) is decided by R2 / R3 / R7; the frames
            # yielded before that are judged here all the same
        except NotSymbolic as exc:
            raise AnalysisError(f"{g.qualname} is outside the evaluation whitelist: {exc}") from exc
        ys = list(ev.collect_yields)
        if not ended and not ys:
            continue
        bad = None
        if len(ys) != len(frames) or any(not (isinstance(y, dict) and y == {"frame": i}) for i, y in enumerate(ys)):
            bad = f"the frame parser returned {len(frames)} frame(s), the generator yields {[y if not isinstance(y, dict) else y for y in ys]!r}"[:200]
        elif any(f_ != {"frame": i} for i, f_ in enumerate(frames)):
            bad = f"the frames are modified before they are yielded: {frames!r}"[:200]
        elif len(frames) != 2 and ended:
            bad = f"{len(frames)} frame(s) are parsed from an input of two"
        else:
            for which, a, k in calls[:2]:
                b = dict(zip(which.posparams, a))
                b.update(k)
                if b.get(which.posparams[0]) is not lit:
                    bad = "the frame parser is not given the line iterator of the generator"
                for p_, v in extra.items():
                    if p_ in which.posparams and b.get(p_) != v:
                        bad = bad or f"the argument `{p_}` of load_many does not reach the frame parser (it receives {b.get(p_)!r})"
        verdicts.append(bad)
    if not verdicts:
        # no frame is yielded with either end signal: nothing to judge for this clause (a generator that raises before
        # its first frame is R2 / R3 / R7's finding)
        ctx.ok(rid, f"{short}.load_many: no frame is yielded before the generator raises on the model input; the clause has no instance here (how sequences end: R2 / R3 / R7)", f"{g.module.relpath}:{floop.lineno}")
        return
    bad = next((v for v in verdicts if v), None)
    if bad:
        ctx.violate(rid, f"{short}.load_many does not yield the unmodified result of the module's load_one: {bad}", g, floop, construct="yield of load_one")
    else:
        ctx.ok(rid, f"{short}.load_many yields the module's own load_one(lit, ...) unmodified (evaluated on two frames; its arguments are passed through)", f"{g.module.relpath}:{floop.lineno}")


def check_two_frame_pairs(ctx, rid):
    """The small trajectory formats that have both a writer and a reader for many frames (XYZ, SDF, MOL2, PDB): the
    module's dump_many is interpreted on two model molecules of different size (2 and 3 atoms, different titles and
    coordinates) into a text sink, its load_many on the printed lines, run to the end."""
    import numpy as np

    from ..accessors import AccessorEval, Raised, Rec, TextSink
    from ..symarr import NotSymbolic

    prog = ctx.prog
    licls = prog.cls("iodata.utils.LineIterator")
    iocls = prog.cls("iodata.iodata.IOData")

    def molecule(title, atnums, coords, bonds):
        f0 = {n: None for n in iocls.fields}
        n = len(atnums)
        f0.update(title=title, atnums=np.array(atnums), atcoords=np.array(coords, dtype=float), bonds=np.array(bonds), atcharges={"mol2charges": np.zeros(n)})
        f0["atffparams"] = {"attypes": np.array(["C.3"] * n), "restypes": np.array(["XXX"] * n), "resnums": np.array([-1] * n)}
        f0["extra"] = {"occupancies": np.ones(n), "bfactors": np.zeros(n), "chainids": np.array(["A"] * n)}
        return Rec(iocls, **f0)

    frames = [
        ("FIRST", [8, 1], [[0.5, 1.5, -2.5], [1.25, 0.0, 3.0]], [[0, 1, 1]]),
        ("SECOND", [6, 7, 1], [[2.0, 2.0, 2.0], [-1.0, -1.0, -1.0], [0.25, 0.75, -0.5]], [[0, 1, 1], [1, 2, 1]]),
    ]
    n = 0
    F = "<function>"
    # XYZ: the columns are given explicitly (numbers for the element, three coordinates): the default table holds
    # lambdas over the periodic table, which are C02-R24's clause
    xyz_cols = [
        ("atnums", None, (), int, (F, lambda a, k: int(a[0])), (F, lambda a, k: f"{int(a[0]):3d}")),
        ("atcoords", None, (3,), float, (F, lambda a, k: float(a[0])), (F, lambda a, k: f"{float(a[0]):12.6f}")),
    ]
    for short in ("xyz", "sdf", "mol2", "pdb"):
        dm, lm = prog.format_op(short, "dump_many"), prog.format_op(short, "load_many")
        if dm is None or lm is None:
            continue
        n += 1
        kw_d = {dm.posparams[2]: xyz_cols} if short == "xyz" and len(dm.posparams) > 2 else {}
        kw_l = {lm.posparams[1]: xyz_cols} if short == "xyz" and len(lm.posparams) > 1 else {}
        sink = TextSink()
        try:
            ev = AccessorEval(prog, iocls, limit=80000)
            ev.module = dm.module
            ev._globals = {("iodata.utils", "angstrom"): 1.0}
            if short == "xyz":
                # (the default column table holds lambdas over the periodic table: the model columns stand for it too;
                # whether the caller's columns reach the writer is C02-R24's clause)
                ev._globals[(dm.module.name, "DEFAULT_ATOM_COLUMNS")] = xyz_cols
            ev.eager_generators = True
            ev.run_free(dm, [sink, [molecule(*fr) for fr in frames]], dict(kw_d))
            text = sink.text
            lines = [ln + "\n" for ln in text.split("\n")]
            if lines and lines[-1] == "\n" and text.endswith("\n"):
                lines.pop()  # the text ends with a newline: no extra empty line after it
            lit = Rec(licls, filename="F", fh=iter(lines), lineno=0, stack=[])
            ev = AccessorEval(prog, licls, limit=80000)
            ev.module = lm.module
            ev._globals = {("iodata.utils", "angstrom"): 1.0}
            if short == "xyz":
                ev._globals[(lm.module.name, "DEFAULT_ATOM_COLUMNS")] = xyz_cols
            ev.collect_yields = []
            ev._in_generator = lm
            ev.eager_generators = True
            ev.run_free(lm, [lit], dict(kw_l))
            got = list(ev.collect_yields)
        except Raised as exc:
            ctx.violate(rid, f"{short}: the file dump_many writes for two model molecules makes load_many raise {exc.args[0]}", lm, lm.node, construct=f"{short} two frames: raises")
            continue
        except NotSymbolic as exc:
            raise AnalysisError(f"{short}.dump_many / load_many are outside the evaluation whitelist: {exc}") from exc
        bad = None
        if len(got) != 2:
            bad = f"two frames written, {len(got)} read back"
        else:
            for i, (fr, res) in enumerate(zip(frames, got)):
                title, atnums, coords, _b = fr
                if not isinstance(res, dict):
                    bad = f"frame {i + 1} is not a dictionary of fields"
                    break
                an = [int(x) for x in np.asarray(res.get("atnums"), dtype=float).ravel()] if res.get("atnums") is not None else None
                ac = np.asarray(res.get("atcoords"), dtype=float) if res.get("atcoords") is not None else None
                if an != atnums:
                    bad = f"frame {i + 1} ({title}, atomic numbers {atnums}) comes back with atomic numbers {an}"
                    break
                if ac is None or ac.shape != (len(atnums), 3) or np.abs(ac - np.array(coords)).max() > 1e-3:
                    bad = f"frame {i + 1} ({title}) comes back with coordinates {None if ac is None else ac.tolist()}"
                    break
                if str(res.get("title", "")).strip() != title:
                    bad = f"frame {i + 1} comes back with the title {res.get('title')!r} instead of {title!r}"
                    break
        if bad:
            ctx.violate(rid, f"{short}: {bad}", dm, dm.node, construct=f"{short} two frames: {bad}"[:170])
        else:
            ctx.ok(rid, f"{short}: a 2-atom and a 3-atom molecule written by dump_many come back from load_many as two frames in order, each with its own atoms, coordinates and title", f"{dm.module.relpath}:{dm.lineno}")
    ctx.floor(rid, n, 4, "formats with dump_many and load_many")


def frame_parser(lo):
    """The frame parser of a format: load_one itself, or the one function load_one hands its arguments to unchanged
    (`def load_one(lit, ...): return _load_frame(lit, ...)`), which load_many may then call directly."""
    body_ = [st for st in lo.body if not (isinstance(st, ast.Expr) and isinstance(st.value, ast.Constant))]
    if len(body_) == 1 and isinstance(body_[0], ast.Return) and isinstance(body_[0].value, ast.Call):
        cs_ = next((c for c in lo.calls if c.node is body_[0].value), None)
        inner = cs_.callees[0] if cs_ is not None and len(cs_.callees) == 1 and cs_.callees[0].module is lo.module else None
        call_ = body_[0].value
        if inner is not None and not call_.keywords and [getattr(a, "id", None) for a in call_.args] == list(lo.posparams[: len(call_.args)]) and len(call_.args) == len(inner.posparams):
            return inner
    return lo


def lookahead_outcomes(prog):
    """{format: (load_many, [(label, feed, outcome, stream, lineno)])} for every frame-concatenation generator."""
    from ..accessors import AccessorEval, Raised, Rec, Yielded
    from ..symarr import NotSymbolic

    licls = prog.cls("iodata.utils.LineIterator")
    out = {}
    for short, m in prog.format_modules().items():
        lm = prog.funcs.get(f"{m.name}.load_many")
        if lm is None or not lm.is_generator:
            continue
        # frame loops over concatenated one-frame files: the generator yields what the module's load_one returns
        lo1 = prog.funcs.get(f"{m.name}.load_one")
        if lo1 is None:
            continue
        parsers = {lo1, frame_parser(lo1)}
        if not any(parsers & set(cs.callees) for cs in lm.calls):
            continue
        rows = []
        for label, feed in LOOKAHEAD_FEEDS.items():
            lit = Rec(licls, filename="FILE", fh=iter(list(feed)), lineno=0, stack=[])
            ev = AccessorEval(prog, licls, limit=2000)
            args = [lit] + [None] * (len(lm.posparams) - 1)

            def reached(a, k):
                raise Yielded(None, None)  # the look-ahead is over once the frame parser is called

            ev.stubs = {p_.qualname: reached for p_ in parsers}
            try:
                ev.run_free(lm, args, {})
                outcome = "return"
            except Yielded:
                outcome = "yield"
            except Raised as exc:
                outcome = f"raises {exc.args[0]}"
            except NotSymbolic as exc:
                raise AnalysisError(f"{lm.qualname}: the look-ahead is outside the evaluation whitelist: {exc}") from exc
            stream = list(reversed(lit.fields["stack"])) + list(lit.fields["fh"])
            rows.append((label, feed, outcome, stream, lit.fields["lineno"]))
        out[short] = (lm, rows)
    return out


def check_lookahead_transparency(ctx, rid):
    """The look-ahead of a frame loop leaves the input as it found it.

    Each generator `load_many` is evaluated, up to its first `yield`, on a model `LineIterator` (the repository's own
    class, evaluated too) fed with a few constant line sequences.  When the frame parser is reached, the lines it will
    see -- the pushed-back stack, last in first out, followed by the rest of the input -- must be the input itself, in
    order, less at most the leading blank lines, and the line counter must agree with what was consumed."""
    n = 0
    for short, (lm, rows) in lookahead_outcomes(ctx.prog).items():
        n += 1
        bad = None
        for label, feed, outcome, stream, lineno in rows:
            if outcome.startswith("raises"):
                bad = f"{label}: the look-ahead {outcome} instead of yielding a frame or ending the sequence"
                break
            if outcome == "return":
                continue  # whether the sequence may end here is R7's clause
            k = len(feed) - len(stream)
            if k < 0 or stream != feed[k:] or any(ln.strip() for ln in feed[:k]):
                bad = f"{label}: the frame parser will read {stream!r}, the input was {feed!r} (lines are lost, duplicated or out of order after the look-ahead)"
                break
            if lineno != k:
                bad = f"{label}: {k} line(s) consumed by the look-ahead, but the line counter says {lineno}"
                break
            if k and short in BLANK_FIRST_LINE:
                bad = f"{label}: {k} blank line(s) are dropped before the frame, but {BLANK_FIRST_LINE[short]}"
                break
        if bad:
            ctx.violate(rid, f"{short}.load_many, {bad}", lm, lm.node, construct=f"{short}.load_many look-ahead: {bad}"[:180])
        else:
            ctx.ok(rid, f"{short}.load_many: on {len(rows)} inputs the frame parser sees the input unchanged after the look-ahead", f"{lm.module.relpath}:{lm.lineno}")
    ctx.floor(rid, n, 6, "generator load_many functions")


def check_sequence_end(ctx, rid):
    """A frame loop ends normally only at end of input (evaluated): with anything but blank lines ahead the generator
    goes on to the frame parser (which decides whether that is a frame); a blank line ends the sequence only in formats
    whose frames cannot start with one."""
    n = 0
    for short, (lm, rows) in lookahead_outcomes(ctx.prog).items():
        n += 1
        bad = None
        for label, feed, outcome, stream, lineno in rows:
            if outcome != "return" or not any(ln.strip() for ln in feed):
                continue
            if feed[0].strip() or short not in BLANK_LINE_ENDS:
                bad = f"{label}: the sequence ends normally although {sum(1 for ln in feed if ln.strip())} non-blank line(s) follow: later frames (or a malformed frame that should be reported) are dropped silently"
                break
        if bad:
            ctx.violate(rid, f"{short}.load_many, {bad}", lm, lm.node, construct=f"{short}.load_many ends on content: {bad}"[:180])
        else:
            ctx.ok(rid, f"{short}.load_many: the sequence ends only at end of input" + ("" if short not in BLANK_LINE_ENDS else f" or at a blank line ({BLANK_LINE_ENDS[short]})"), f"{lm.module.relpath}:{lm.lineno}")
    ctx.floor(rid, n, 6, "generator load_many functions")


#: helper calls that may stand inside a StopIteration-tolerant `try` of a frame parser
BOUNDARY_HELPER_OK = {
    ("iodata.formats.fchk._load_fchk_low", "iodata.formats.fchk._load_fchk_field"): "a field cut by the end of the file is dropped as a whole; fchk.load_many subscripts every trajectory field it uses, so the missing field raises (KeyError -> LoadError): no partial frame (the required-label clause is C13-R6 / C02-R2)",
}


def _reads_one_line_at_most(h):
    """A helper that fetches a record head: at most one `next(<its iterator parameter>)`, outside any loop, and the
    iterator is handed to nobody else."""
    itp = h.posparams[0] if h.posparams else None
    if itp is None:
        return False
    nexts = 0
    for n in h.own_nodes():
        if isinstance(n, (ast.For, ast.While)) and any(isinstance(x, ast.Call) and any(isinstance(a, ast.Name) and a.id == itp for a in x.args) for b in n.body for x in ast.walk(b)):
            return False
        if isinstance(n, (ast.For,)) and isinstance(n.iter, ast.Name) and n.iter.id == itp:
            return False
        if isinstance(n, ast.Call) and any(isinstance(a, ast.Name) and a.id == itp for a in n.args):
            if isinstance(n.func, ast.Name) and n.func.id == "next":
                nexts += 1
            elif isinstance(n.func, ast.Name) and n.func.id in ("LoadError", "LoadWarning"):
                continue
            else:
                return False
    return nexts <= 1


def check_boundary_handlers(ctx, rid):
    """Frame parsers of the trajectory formats (`load_one` and the helpers it reaches): a `try` whose handler accepts
    StopIteration without raising may only cover the fetch of the *next record head* -- `line = next(lit)` (possibly
    stripped / lower-cased), blank-line skipping -- never a call that reads the inside of a record.  Otherwise the end
    of a truncated file inside a block is mistaken for the normal end of the frame."""
    prog = ctx.prog
    nsites = 0
    for short, mod in sorted(prog.format_modules().items()):
        lm = prog.format_op(short, "load_many")
        if lm is None:
            continue
        # parser functions: load_many, load_one and everything of the package they reach that takes the iterator
        todo = [g for g in (lm, prog.format_op(short, "load_one")) if g is not None]
        seen = []
        while todo:
            g = todo.pop()
            if g in seen:
                continue
            seen.append(g)
            for cs in g.calls:
                for h in cs.callees:
                    if h.module.name.startswith("iodata.formats.") and h not in seen:
                        todo.append(h)
        for g in seen:
            if g is lm:
                continue  # the handlers of the frame loop itself are decided by R2 / R3 (what they may swallow)
            for t in [n for n in g.own_nodes() if isinstance(n, ast.Try)]:
                tolerant = None
                for h in t.handlers:
                    names = [] if h.type is None else [getattr(x, "id", getattr(x, "attr", "")) for x in (h.type.elts if isinstance(h.type, ast.Tuple) else [h.type])]
                    catches = h.type is None or any(nm in ("StopIteration", "Exception", "BaseException") for nm in names)
                    if catches and not (h.body and isinstance(h.body[-1], ast.Raise)):
                        tolerant = h
                if tolerant is None:
                    continue
                nsites += 1
                offending = None
                for st in t.body:
                    for x in ast.walk(st):
                        if not isinstance(x, ast.Call):
                            continue
                        cs = next((c for c in g.calls if c.node is x), None)
                        callees = [h for h in (cs.callees if cs else []) if h.module.name.startswith("iodata.") and h.cls is None]
                        for h in callees:
                            if (g.qualname, h.qualname) in BOUNDARY_HELPER_OK:
                                continue
                            # a package function that is handed the line iterator reads inside a record -- unless it is
                            # itself a record-head reader (one `next` on its iterator parameter, no loop, no hand-over)
                            if any(isinstance(a, ast.Name) and a.id in ("lit",) for a in x.args) or any(isinstance(a, ast.Name) and a.id in g.posparams[:1] for a in x.args):
                                if not _reads_one_line_at_most(h):
                                    offending = (x, h)
                    # reading more than record heads: a conversion of what was read (int(), float(), indexing words)
                    # belongs to a record as well -- but is not an end-of-input matter; only consumption counts here
                if offending is not None:
                    x, h = offending
                    ctx.violate(rid, f"{g.qualname}: the `try` that takes StopIteration for the normal end of the input also covers `{src_of(x)[:60]}`: when the file ends inside that block the frame is returned as it stands (or the sequence ends one frame short) without warning", g, t, construct=f"tolerant try covers {h.name}")
                else:
                    ctx.ok(rid, f"{g.qualname}: the StopIteration-tolerant try at line {t.lineno} covers record-head reads only", f"{g.module.relpath}:{t.lineno}", sample=False)
            # `next(lit, default)` is the same tolerance without a `try`: legitimate only as the record-head read of a
            # loop whose next statement tests the result against that default and leaves the loop
            pmg = prog.parents(g)
            for x in g.own_nodes():
                if not (isinstance(x, ast.Call) and isinstance(x.func, ast.Name) and x.func.id == "next" and len(x.args) == 2 and isinstance(x.args[0], ast.Name) and x.args[0].id in (g.posparams[:1] or ["lit"]) + ["lit"]):
                    continue
                nsites += 1
                st = x
                while not isinstance(st, ast.stmt):
                    st = pmg[id(st)]
                par = pmg.get(id(st))
                ok_ = False
                if isinstance(st, ast.Assign) and st.value is x and len(st.targets) == 1 and isinstance(st.targets[0], ast.Name) and isinstance(par, (ast.While, ast.For)) and par.body and par.body[0] is st and len(par.body) > 1:
                    nxt = par.body[1]
                    tname = st.targets[0].id
                    if isinstance(nxt, ast.If) and any(isinstance(y, ast.Name) and y.id == tname for y in ast.walk(nxt.test)) and nxt.body and isinstance(nxt.body[-1], (ast.Break, ast.Return)):
                        ok_ = True
                if ok_:
                    ctx.ok(rid, f"{g.qualname}: `{src_of(x)}` at line {x.lineno} is a record-head read whose default ends the loop", f"{g.module.relpath}:{x.lineno}", sample=False)
                else:
                    ctx.violate(rid, f"{g.qualname}: `{src_of(x)}` replaces a missing line by a default inside a record: a file that ends here yields the frame as far as it got, without warning or error", g, x, construct=f"next with default inside a record: {src_of(x)}")
    ctx.floor(rid, nsites, 1, "StopIteration-tolerant try statements in frame parsers")


def check_api_frame_loop(ctx, lm):
    """api.load_many interpreted as a generator run to its end (what it yields is collected in order), with the format
    selection returning a model module whose `load_many` hands out three model frames, and IOData / LineIterator
    replaced by recorders: one object per frame, built from that frame's dictionary, in order, nothing else; the keyword
    arguments reach the format's load_many; the line iterator is entered once and left once."""
    from ..accessors import AccessorEval, Raised, Rec
    from ..symarr import NotSymbolic

    prog = ctx.prog
    io = prog.cls("iodata.iodata.IOData")
    li = prog.cls("iodata.utils.LineIterator")
    # the second frame carries no data at all (a loader may return an empty dictionary): it is a frame all the same
    frames = [{"title": "f1", "atnums": 1}, {}, {"title": "f3", "atnums": 3}]
    seen = {}

    def fmt_load_many(args, kw):
        seen["args"], seen["kw"] = list(args), dict(kw)
        return [dict(fr) for fr in frames]

    fm = Rec(None, load_many=("<function>", fmt_load_many))
    entered, left, the_lit = [], [], []

    def make_lit(a, k):
        # the model line iterator: an object with the file name, entered / left as a context manager (entering gives
        # the object itself, as the library's class does)
        rec = Rec(None, filename=(a[0] if a else k.get("filename")), lineno=0)
        rec.fields["__enter__"] = ("<function>", lambda a2, k2: (entered.append(1), rec)[1])
        rec.fields["__exit__"] = ("<function>", lambda a2, k2: left.append(1))
        the_lit.append(rec)
        return rec

    ev = AccessorEval(prog, None, limit=4000)
    ev.module = lm.module
    ev.stubs = {
        "iodata.api._select_format_module": lambda a, k: fm,
        io.qualname: lambda a, k: Rec(None, made_from=dict(k), positional=list(a)),
        li.qualname: make_lit,
    }
    ev.collect_yields = []
    try:
        ev.run_free(lm, ["FILE"], {"fmt": None, "option": 7})
    except Raised as exc:
        ctx.violate("R1", f"api.load_many raises {exc.args[0]} on three well-formed frames", lm, lm.node, construct="api frame loop raises")
        return
    except NotSymbolic as exc:
        raise AnalysisError(f"api.load_many is outside the evaluation whitelist: {exc}") from exc
    got = ev.collect_yields
    bad = None
    if len(got) != 3 or not all(isinstance(g, Rec) and g.fields.get("made_from") == fr and not g.fields.get("positional") for g, fr in zip(got, frames)):
        titles = [g.fields.get("made_from", {}).get("title") if isinstance(g, Rec) else g for g in got]
        bad = f"three frames (f1, an empty one, f3) of the format's load_many are yielded as {titles} (each frame must become exactly one IOData(**frame), in order)"
    elif len(seen.get("args", [])) != 1 or not the_lit or seen["args"][0] is not the_lit[0] or seen.get("kw") != {"option": 7}:
        bad = f"the format's load_many is called with {seen.get('args')}, {seen.get('kw')} instead of the line iterator and the caller's keyword arguments"
    elif entered != [1] or left != [1]:
        bad = f"the line iterator is entered {len(entered)} and left {len(left)} time(s) for one call"
    if bad:
        ctx.violate("R1", f"api.load_many: {bad}", lm, lm.node, construct="api frame loop: " + bad[:120])
    else:
        ctx.ok("R1", "api.load_many (run to its end on a model format with three frames): one IOData(**frame) per frame, in order; the caller's keyword arguments reach the format; the file is entered and left once", lm.where)
