"""C10: convert_conventions / _convert_convention_shell decided by evaluating them on the repository's own convention
tables and on synthetic signed permutations, against the definition in the docstring
(vector2 = vector1[permutation] * signs; reverse: vector1 = vector2[permutation] * signs)."""

from __future__ import annotations

import itertools

import numpy as np

from .. import AnalysisError
from ..accessors import AccessorEval, Raised, Rec
from ..symarr import NotSymbolic


def _strip(l):
    return l.lstrip("-")


def _sgn(l):
    return -1 if l.startswith("-") else 1


def _toint(x):
    from ..symarr import Sym

    if isinstance(x, Sym):
        if any(m != () for m in x.terms):
            raise NotSymbolic("non-constant entry in a permutation / sign vector")
        return int(x.terms.get((), 0))
    return int(x)


def oracle_shell(conv1, conv2, reverse):
    """(permutation, signs) by the definition, or 'ValueError' when the two lists are not signed re-orderings."""
    s1, s2 = [_strip(x) for x in conv1], [_strip(x) for x in conv2]
    if len(conv1) != len(conv2) or len(set(s1)) != len(s1) or len(set(s2)) != len(s2) or set(s1) != set(s2):
        return "ValueError"
    if reverse:
        conv1, conv2, s1, s2 = conv2, conv1, s2, s1
    perm = [s1.index(x) for x in s2]
    signs = [_sgn(conv1[j]) * _sgn(conv2[i]) for i, j in enumerate(perm)]
    return perm, signs


def check_conversion_semantics(ctx, rid_shell, rid_basis, tables, rid_reject=None):
    """tables: {label: {key: [labels]}} -- the convention tables discovered in the repository."""
    prog = ctx.prog
    ccs = prog.func("iodata.convert._convert_convention_shell")
    cc = prog.func("iodata.convert.convert_conventions")
    shell_cls = prog.cls("iodata.basis.Shell")
    basis_cls = prog.cls("iodata.basis.MolecularBasis")

    def ev(f):
        e = AccessorEval(prog, shell_cls, limit=4000)
        e.module = f.module
        return e

    def run_shell(c1, c2, reverse):
        try:
            r = ev(ccs).run_free(ccs, [list(c1), list(c2)], {"reverse": reverse})
        except Raised as exc:
            return exc.cls
        p_, s_ = r
        return [_toint(x) for x in p_], [_toint(x) for x in s_]

    try:
        # 1. every pair of repository tables that share a key (both directions)
        npairs, bad = 0, None
        labels = sorted(tables)
        for la, lb in itertools.permutations(labels, 2):
            for key in sorted(set(tables[la]) & set(tables[lb]), key=str):
                c1, c2 = tables[la][key], tables[lb][key]
                if len(c1) > 28:
                    continue
                for reverse in (False, True):
                    want = oracle_shell(c1, c2, reverse)
                    got = run_shell(c1, c2, reverse)
                    npairs += 1
                    if got != (want if want == "ValueError" else (want[0], want[1])):
                        bad = bad or (la, lb, key, reverse, got, want)
        if bad:
            la, lb, key, reverse, got, want = bad
            ctx.violate(rid_shell, f"_convert_convention_shell({la}{key}, {lb}{key}, reverse={reverse}) returns {str(got)[:90]}, the definition gives {str(want)[:90]}", ccs, ccs.node, construct=f"shell conversion {la}->{lb} {key} reverse={reverse}")
        else:
            ctx.ok(rid_shell, f"_convert_convention_shell evaluated on {npairs} (table entry, table entry, direction) combinations of the repository's own convention tables: permutation and signs follow the definition", f"{ccs.module.relpath}:{ccs.lineno}")
        # 2. synthetic cases: every signed re-ordering of three labels against every other (sign + move combined)
        base = ["x", "y", "z"]
        variants = []
        for perm in itertools.permutations(range(3)):
            for sg in itertools.product(("", "-"), repeat=3):
                variants.append([sg[i] + base[p_] for i, p_ in enumerate(perm)])
        nsyn, bad = 0, None
        # the flag is any true / false value (a numpy boolean from a comparison, 0 / 1), not only the two singletons
        for c1 in variants[::5]:
            for c2 in variants:
                for reverse in (False, True, np.True_, np.False_, 1, 0):
                    nsyn += 1
                    want = oracle_shell(c1, c2, bool(reverse))
                    got = run_shell(c1, c2, reverse)
                    if got != (want[0], want[1]):
                        bad = bad or (c1, c2, repr(reverse), got, want)
        if bad:
            c1, c2, reverse, got, want = bad
            ctx.violate(rid_shell, f"_convert_convention_shell({c1}, {c2}, reverse={reverse}) returns {got}, the definition gives {want}", ccs, ccs.node, construct=f"shell conversion {c1}->{c2} reverse={reverse}")
        else:
            ctx.ok(rid_shell, f"{nsyn} synthetic signed re-orderings of three labels (a function both moved and sign-flipped included): permutation and signs follow the definition in both directions", f"{ccs.module.relpath}:{ccs.lineno}")
        # 3. rejections
        rej = [(["x", "x", "z"], ["x", "y", "z"]), (["x", "y", "z"], ["x", "-x", "z"]), (["x", "y"], ["x", "y", "z"]), (["x", "y", "w"], ["x", "y", "z"]), (["x", "-x", "z"], ["x", "-x", "z"]), (["x", "y", "z"], ["x", "y", "y"]),
               # single-function shells are no exception: the one label must agree too
               (["s"], ["1"]), (["-s"], ["1"]), (["1"], ["s"]), (["x"], ["x", "x"])]
        badr = [(a, b, rv) for a, b in rej for rv in (False, True) if run_shell(a, b, rv) != "ValueError"]
        rid_rej = rid_reject or rid_shell
        if badr:
            a, b, rv = badr[0]
            ctx.violate(rid_rej, f"_convert_convention_shell({a}, {b}, reverse={rv}) is accepted (returns {run_shell(a, b, rv)}): lists that are not signed re-orderings of each other must raise ValueError", ccs, ccs.node, construct=f"shell conversion accepts {a} vs {b}")
        else:
            ctx.ok(rid_rej, f"{2 * len(rej)} ill-formed pairs (duplicates, duplicates differing only in sign, other labels, other lengths) raise ValueError", f"{ccs.module.relpath}:{ccs.lineno}")
        # 4. the basis-level routine: concatenation over shells and contractions with running offsets
        src_tab = {(0, "c"): ["1"], (1, "c"): ["x", "y", "z"], (2, "p"): ["c0", "c1", "s1", "c2", "s2"], (2, "c"): ["xx", "xy", "xz", "yy", "yz", "zz"]}
        new_tab = {(0, "c"): ["-1"], (1, "c"): ["z", "-x", "y"], (2, "p"): ["s2", "-c2", "c0", "-s1", "c1"], (2, "c"): ["xx", "yy", "zz", "xy", "xz", "yz"]}
        shells = [([0, 1], ["c", "c"]), ([2], ["p"]), ([1], ["c"]), ([2, 2], ["c", "p"]), ([0], ["c"])]
        basis = Rec(basis_cls, shells=[Rec(shell_cls, icenter=0, angmoms=np.array(a), kinds=list(k), exponents=None, coeffs=None) for a, k in shells], conventions=src_tab, primitive_normalization="L2")
        for reverse in (False, True):
            wp, ws = [], []
            for a, k in shells:
                for l, kd in zip(a, k):
                    p_, s_ = oracle_shell(src_tab[(l, kd)], new_tab[(l, kd)], reverse)
                    off = len(wp)
                    wp.extend(i + off for i in p_)
                    ws.extend(s_)
            try:
                r = ev(cc).run_free(cc, [basis, new_tab], {"reverse": reverse})
                gp, gs = [_toint(x) for x in np.asarray(r[0], dtype=object).ravel()], [_toint(x) for x in np.asarray(r[1], dtype=object).ravel()]
            except Raised as exc:
                gp, gs = exc.cls, None
            if (gp, gs) == (wp, ws):
                ctx.ok(rid_basis, f"convert_conventions(reverse={reverse}) on an abstract basis of 5 shells / 7 contractions (generalized SP and mixed d shells included): the shell results are concatenated in shell / contraction order with running offsets ({len(wp)} functions)", f"{cc.module.relpath}:{cc.lineno}")
            else:
                ctx.violate(rid_basis, f"convert_conventions(reverse={reverse}) on an abstract 5-shell basis returns permutation {str(gp)[:80]}, signs {str(gs)[:60]}; by the definition {str(wp)[:80]}, {str(ws)[:60]}", cc, cc.node, construct=f"basis conversion reverse={reverse}")
        # ... nor may a key missing from the basis's *own* conventions be replaced by some default table
        try:
            b2 = Rec(basis_cls, shells=basis.fields["shells"], conventions={k_: v_ for k_, v_ in src_tab.items() if k_ != (2, "p")}, primitive_normalization="L2")
            ev(cc).run_free(cc, [b2, new_tab], {"reverse": False})
            ctx.violate(rid_basis, "convert_conventions accepts a basis whose own conventions do not define one of its shell types (another table is assumed silently)", cc, cc.node, construct="basis conversion missing source key")
        except Raised as exc:
            ctx.ok(rid_basis, f"a shell type missing from the basis's own conventions raises {exc.cls}", f"{cc.module.relpath}:{cc.lineno}", sample=False)
        # a key missing from the new conventions must not be skipped silently
        try:
            t2 = dict(new_tab)
            del t2[(2, "p")]
            ev(cc).run_free(cc, [basis, t2], {"reverse": False})
            ctx.violate(rid_basis, "convert_conventions silently skips a shell type the new conventions do not define", cc, cc.node, construct="basis conversion missing key")
        except Raised as exc:
            ctx.ok(rid_basis, f"a shell type missing from the new conventions raises {exc.cls}", f"{cc.module.relpath}:{cc.lineno}", sample=False)
    except NotSymbolic as exc:
        raise AnalysisError(f"convention conversion code is outside the accessor-evaluation whitelist: {exc}") from exc
