"""C09 -- dumping never alters the caller's data; conversions are explicit (structural clauses)."""

from __future__ import annotations

import ast

from .. import AnalysisError
from ..absint import Interp, State
from ..astutil import attr_chain, deref, names_in, raises_class, walk_stmts
from ..cfg import cfg_of
from ..domains.ownership import OwnDomain, owners
from ..model import Program, norm_construct, src_of
from ..schema import DATA_CLASSES, scalar_attr_names

PROP = "C09"
LEVEL = "other"
TECHNIQUE = "static analysis: interprocedural ownership/effect abstract interpretation (borrowed vs fresh values, aliasing through a store) over every dump-side entry point; CFG dominance for conversion announcements"
EXPLANATION = (
    "Static decision of the structural clauses of C09: (R1) no mutation sink (item/attribute store, "
    "in-place operator, mutating method, out= argument, in-place numpy helper) is applied to a value "
    "borrowed from the object(s) passed to dump_one / dump_many / write_input, any format's prepare_dump / "
    "dump_one / dump_many / write_input, or the prepare_/convert_ helpers -- decided by an abstract "
    "interpretation that follows aliases, containers and helper calls; property getters of the data "
    "classes are pure except the documented lazy atcorenums default; (R2) when nothing needs converting the "
    "prepare helpers return the very object they were given, under exactly the documented 'nothing to do' "
    "predicates; prepare_dump and the API pass that object on; (R3) every conversion builds a new object "
    "(attrs.evolve / constructor), is preceded by `if not allow_changes: raise PrepareDumpError` and "
    "announced by a PrepareDumpWarning.  Declined: equivalence of the converted wavefunction (numerical; "
    "structural part under C14)."
)
TECHNIQUE += '; evaluation of the shared preparation helpers on abstract objects'
EXPLANATION += " R2 evaluates prepare_unrestricted_aminusb and prepare_segmented / convert_to_segmented on abstract objects: the very same object comes back exactly when nothing needs converting, otherwise a converted copy is returned and the caller's object is untouched."
# --- metadata added for batch 7
TECHNIQUE += '; CFG / dataflow of the prepared object through the API; exception-flow of the pre-flight stage'
EXPLANATION += " Added: (R5) the API writes and returns the object prepare_dump returned; (R6) the caller's allow_changes reaches prepare_dump and defaults to False; (R7) every exception of the pre-flight stage leaves dump_one / dump_many as PrepareDumpError (the exception-flow clause C08-R2: a funnel narrowed to a tuple lets NotImplementedError through). The ownership domain models attrs.asdict(recurse=False), np.array(copy=False) / np.asarray views, out= arguments and stores on function / class / module objects."
# --- end metadata batch 7
# --- metadata added for batch 8
EXPLANATION += ' Added: (R8) the evaluated guard matrix (same object / error / announced copy per format and object class) as the value-level form of R2 / R3: a pre-flight that re-orders an object silently is reported whatever `allow_changes` says.'
# --- end metadata batch 8
# --- metadata added after the round-4 refactoring twins
TECHNIQUE += '; evaluation of the prepare_* conversions on model objects'
EXPLANATION += " R3: prepare_unrestricted_aminusb and prepare_segmented are interpreted on a model object that needs the conversion: PrepareDumpError without allow_changes (and no warning); with it exactly one PrepareDumpWarning that names the file, a result that is another object, and the caller's object still holding its own orbitals / basis."
# --- end metadata round-4 twins
TRUSTED = [
    "CPython ast parser", "numpy view-vs-copy rules as tabulated in the ownership domain",
    "attrs.evolve makes a shallow copy", "basic slicing/attribute access returns views/members",
]

POSITIVE = '''
import numpy as np
def _helper(lst):
    lst.append(1)
def dump_one(f, data):
    alias = data.extra
    alias["x"] = 1
    m = data.atmasses
    m /= 2.0
    _helper(data.extra["provenance"])
    data.obasis.shells.sort(key=lambda s: s.icenter)
    ok = list(data.atnums)
    ok.append(3)
    c = data.atcoords.copy()
    c[0] = 1
'''


def _analyse(prog: Program, entries, scalars):
    """entries: list of (Func, {param names that are roots}).  Returns the list of sinks."""
    roots = {}
    for f, ps in entries:
        roots.setdefault(f.qualname, set()).update(ps)
    allsinks = []
    for f, ps in entries:
        dom = OwnDomain(prog, roots={f.qualname: set(ps)}, scalar_attrs=scalars)
        it = Interp(prog, dom)
        args = {}
        it.run_function(f, args, State())
        for s in dom.sinks:
            allsinks.append((f,) + s)
    return allsinks


def run(ctx):
    prog = ctx.prog
    ctx.clauses_decided = ["R1 no mutation sink reachable on borrowed data", "R2 identity when nothing changes", "R3 conversions are explicit"]
    ctx.clauses_declined = ["equivalence of the converted wavefunction (density, spin density): numerical"]
    scalars = scalar_attr_names(prog) | {"nbasis", "norb"}

    # ------------------------------------------------------------------ R1
    ctx.rule("R1", "no mutation of data borrowed from the caller", "an object whose array / dictionary content differs after the call")
    entries = []
    api = prog.module("iodata.api")
    entries.append((prog.func("iodata.api.dump_one"), {"data"}))
    entries.append((prog.func("iodata.api.dump_many"), {"iter_data"}))
    entries.append((prog.func("iodata.api.write_input"), {"data"}))
    for short, m in prog.format_modules().items():
        for op, idx in (("prepare_dump", 0), ("dump_one", 1), ("dump_many", 1)):
            g = prog.format_op(short, op)
            if g is not None and len(g.posparams) > idx:
                entries.append((g, {g.posparams[idx]}))
    for short, m in prog.input_modules().items():
        g = prog.funcs.get(f"{m.name}.write_input")
        if g is not None:
            entries.append((g, {g.posparams[1]}))
    from .c19_semantics import input_base

    for g in (input_base(prog), prog.funcs.get("iodata.inputs.common.populate_fields")):
        if g is not None:
            roots = {p for p in g.posparams if p == "data"}
            if roots:
                entries.append((g, roots))
    for q in ("iodata.prepare.prepare_segmented", "iodata.prepare.prepare_unrestricted_aminusb", "iodata.convert.convert_to_segmented", "iodata.convert.convert_to_unrestricted", "iodata.convert.convert_conventions"):
        g = prog.func(q)
        entries.append((g, {g.posparams[0]}))
    sinks = _analyse(prog, entries, scalars)
    seen = set()
    for entry, func, node, kind, tag, detail, stack in sinks:
        key = (func.qualname, getattr(node, "lineno", 0), kind)
        if key in seen:
            continue
        seen.add(key)
        ctx.violate("R1", f"{detail} (reached from {entry.qualname})", func, node, witness=stack, entry=entry.qualname)
    for f, ps in entries:
        if not any(s[0] is f for s in sinks):
            ctx.ok("R1", f"{f.qualname}({', '.join(sorted(ps))}): no mutation sink reachable", f.where, sample=(f.name == "dump_one" and f.module.short in ("wfx", "json_qcschema", "molden")))
    ctx.floor("R1", len(entries), 30, "dump-side entry points")
    # positive control: the engine must flag a known-bad snippet on every run
    ov = dict(prog.overlay)
    ov["iodata/formats/zz_selftest_positive.py"] = "PATTERNS = []\n" + POSITIVE
    p2 = Program(prog.root, overlay=ov)
    g = p2.func("iodata.formats.zz_selftest_positive.dump_one")
    ps = _analyse(p2, [(g, {"data"})], scalars)
    lines = sorted({getattr(s[2], "lineno", 0) for s in ps})
    if len(ps) < 4:
        raise AnalysisError(f"ownership engine self-test: only {len(ps)} of 4 seeded mutation sinks flagged ({lines})")
    if any(l >= 15 for l in lines):
        raise AnalysisError(f"ownership engine self-test: a copy-then-mutate twin was flagged (lines {lines})")
    ctx.extra["positive_control"] = f"{len(ps)} sinks flagged in the built-in bad snippet, copy-then-mutate twins silent"
    # getter purity
    for q in DATA_CLASSES:
        ci = prog.cls(q)
        for name, g in ci.getters.items():
            stores = []
            for n in g.own_nodes():
                if isinstance(n, (ast.Assign, ast.AugAssign)):
                    tg = n.targets if isinstance(n, ast.Assign) else [n.target]
                    for t in tg:
                        ch = attr_chain(t) if isinstance(t, ast.Attribute) else None
                        if ch and ch[0] == "self":
                            stores.append(n)
                        if isinstance(t, ast.Subscript) and attr_chain(t.value) and attr_chain(t.value)[0] == "self":
                            stores.append(n)
            if not stores:
                ctx.ok("R1", f"getter {ci.name}.{name} is pure", f"{g.module.relpath}:{g.lineno}", sample=False)
            elif ci.name == "IOData" and name == "atcorenums":
                ctx.ok("R1", "IOData.atcorenums getter: the documented lazy default from atnums (permitted by the property)", f"{g.module.relpath}:{g.lineno}")
            else:
                ctx.violate("R1", f"property getter {ci.name}.{name} assigns to self (reading it during a dump changes the caller's object)", g, stores[0])

    # ------------------------------------------------------------------ R2
    ctx.rule("R2", "the very same object is returned when nothing needs converting", "a needless copy, or an unconverted object passed on as if it were fine")
    # the two shared preparation helpers are evaluated on abstract objects (identity exactly when nothing needs
    # converting; a converted *copy* with the caller's object untouched otherwise)
    from .guards import check_aminusb_predicate
    from .segpred import check_segmentation

    check_aminusb_predicate(ctx, "R2")
    check_segmentation(ctx, "R2", "R2")
    pa = prog.func("iodata.prepare.prepare_unrestricted_aminusb")
    ps_ = prog.func("iodata.prepare.prepare_segmented")
    # format prepare_dump: returns the parameter or a prepare_* result; api passes it on
    for short in prog.format_modules():
        g = prog.format_op(short, "prepare_dump")
        if g is None:
            continue
        p0 = g.posparams[0]
        for r in [n for n in g.own_nodes() if isinstance(n, ast.Return)]:
            v = r.value
            okk = False
            if isinstance(v, ast.Name) and v.id == p0:
                okk = True  # possibly re-bound to a prepare_* result
                for n in g.own_nodes():
                    if isinstance(n, ast.Assign) and any(isinstance(t, ast.Name) and t.id == p0 for t in n.targets):
                        cal = n.value
                        rr = prog.resolve_expr(g, g.module, cal.func) if isinstance(cal, ast.Call) else None
                        if not (rr and rr[0] == "func" and rr[1] in (pa, ps_) and isinstance(cal.args[0], ast.Name) and cal.args[0].id == p0):
                            okk = False
            elif isinstance(v, ast.Call):
                rr = prog.resolve_expr(g, g.module, v.func)
                okk = bool(rr and rr[0] == "func" and rr[1] in (pa, ps_) and isinstance(v.args[0], ast.Name) and v.args[0].id == p0)
            if okk:
                ctx.ok("R2", f"{short}.prepare_dump returns its argument or a prepare_* result of it", f"{g.module.relpath}:{r.lineno}", sample=False)
            else:
                ctx.violate("R2", f"{short}.prepare_dump returns `{src_of(v)[:60]}` (neither the given object nor a prepare_* result)", g, r)
    d1 = prog.func("iodata.api.dump_one")
    rets = [n for n in d1.own_nodes() if isinstance(n, ast.Return)]
    wcall = [cs for cs in d1.calls if cs.registry_op == "dump_one"]
    if len(rets) == 1 and isinstance(rets[0].value, ast.Name) and wcall and len(wcall[0].node.args) > 1 and isinstance(wcall[0].node.args[1], ast.Name) and wcall[0].node.args[1].id == rets[0].value.id == d1.posparams[0]:
        ctx.ok("R2", "api.dump_one writes and returns the prepared object", d1.where)
    else:
        ctx.violate("R2", "api.dump_one does not write and return the same prepared object", d1, d1.node, construct="dump_one return")

    # ------------------------------------------------------------------ R3
    ctx.rule("R3", "conversions are explicit: new object, allow_changes guard, warning", "a silent or unannounced conversion")
    _check_conversions_evaluated(ctx, pa, ps_)
    from .apiplumb import check_prepare_arguments, check_prepared_object_used

    ctx.rule("R5", "the API writes and returns the object prepare_dump returned", "the conversion is announced but the unconverted object is written (or the caller gets back an object that was not the one written)")
    check_prepared_object_used(ctx, "R5")
    ctx.rule("R6", "the caller's allow_changes reaches prepare_dump; its default is False", "objects are converted although the caller did not allow it")
    check_prepare_arguments(ctx, "R6")
    # "either writes the object as is or raises PrepareDumpError": the exception funnel of the pre-flight stage is the
    # same structural clause C08 decides (every exception of the prepare stage leaves dump_one / dump_many converted)
    # ... and "writes the object as is": the evaluated guard matrix (same object / error / announced copy per format
    # and object class) is the value-level form of R2 / R3
    ctx.borrow("c08", {"R2": "R7", "R5": "R8"})

def _check_conversions_evaluated(ctx, pa, ps_):
    """R3 by evaluation: each `prepare_*` routine is interpreted on a model object that needs the conversion.  Without
    allow_changes the outcome is PrepareDumpError and nothing is announced; with it exactly one PrepareDumpWarning that
    names the file is issued, the result is another object than the one given, and the given object still holds the
    orbitals / basis it held."""
    import numpy as np

    from ..accessors import AccessorEval, Raised, Rec
    from ..symarr import NotSymbolic

    prog = ctx.prog
    iocls = prog.cls("iodata.iodata.IOData")
    mo_cls = prog.cls("iodata.orbitals.MolecularOrbitals")
    shcls = prog.cls("iodata.basis.Shell")
    mbcls = prog.cls("iodata.basis.MolecularBasis")

    def obj_aminusb():
        f0 = {n_: None for n_ in mo_cls.fields}
        f0.update(kind="restricted", norba=2, norbb=2, occs=np.array([2.0, 1.0]), coeffs=np.zeros((3, 2)), energies=np.array([-1.0, 0.5]), occs_aminusb=np.array([0.0, 1.0]))
        d0 = {n_: None for n_ in iocls.fields}
        d0.update(mo=Rec(mo_cls, **f0))
        return Rec(iocls, **d0), "mo"

    def obj_generalized():
        sh = Rec(shcls, icenter=0, angmoms=np.array([0, 2]), kinds=["c", "p"], exponents=np.array([1.0, 0.5]), coeffs=np.array([[0.5, 0.25], [0.75, 1.0]]))
        d0 = {n_: None for n_ in iocls.fields}
        d0.update(obasis=Rec(mbcls, shells=[sh], conventions={}, primitive_normalization="L2"))
        return Rec(iocls, **d0), "obasis"

    for f, mk, extra in ((pa, obj_aminusb, []), (ps_, obj_generalized, [False])):
        bad = None
        for allow in (False, True):
            data, held = mk()
            before = data.fields[held]
            warned = []
            ev = AccessorEval(prog, iocls, limit=8000)
            ev.module = f.module
            ev.ext_stubs = {"warnings.warn": lambda a_, k_: warned.append(a_[0] if a_ else None)}
            args = [data] + extra + [allow, "FILE", "FMT"]
            try:
                res = ev.run_free(f, args, {})
                outcome = "returns"
            except Raised as exc:
                res, outcome = None, exc.args[0]
            except NotSymbolic as exc:
                raise AnalysisError(f"{f.qualname} is outside the evaluation whitelist: {exc}") from exc
            if not allow:
                if outcome != "PrepareDumpError":
                    bad = bad or f"an object that needs the conversion, allow_changes=False: {outcome} instead of PrepareDumpError"
                elif warned:
                    bad = bad or "a conversion is announced although it was refused"
            else:
                w_ok = len(warned) == 1 and isinstance(warned[0], Rec) and warned[0].cls is not None and warned[0].cls.name == "PrepareDumpWarning" and "FILE" in [a_ for a_ in warned[0].fields.get("args", ())]
                if outcome != "returns":
                    bad = bad or f"allow_changes=True: {outcome}"
                elif not w_ok:
                    bad = bad or f"conversion is not announced by a PrepareDumpWarning on every path ({len(warned)} warning(s) issued" + ("" if not warned else f", the first is {getattr(getattr(warned[0], 'cls', None), 'name', type(warned[0]).__name__)} with arguments {getattr(warned[0], 'fields', {}).get('args')!r}") + ")"
                elif res is data or not isinstance(res, Rec):
                    bad = bad or "the converted object is the caller's own object (converted in place)"
                elif data.fields[held] is not before:
                    bad = bad or f"the caller's object has another `{held}` after the conversion"
                elif res.fields.get(held) is before:
                    bad = bad or f"the object returned still holds the unconverted `{held}`"
        if bad:
            ctx.violate("R3", f"{f.name}: {bad}", f, f.node, construct=f"{f.name}: {bad}"[:170])
        else:
            ctx.ok("R3", f"{f.name} evaluated on a model object that needs the conversion: PrepareDumpError without allow_changes; with it one PrepareDumpWarning naming the file, a new object, the caller's object untouched", f"{f.module.relpath}:{f.lineno}")


def deref_attr(func, node):
    return node
