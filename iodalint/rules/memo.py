"""Local memo tables: a value cached under a key must depend only on what the key determines.

Pattern (inside a loop):  v = D.get(k) / `if k not in D` ... v = <expr> ; D[k] = v   with D a local dict created empty
before the loop.  If <expr> reads a variable that changes from one loop iteration to the next and that the key does not
determine, the second item with the same key silently gets the first item's value.
"""

from __future__ import annotations

import ast

from ..model import src_of

POSITIVE = '''
def bad(items, table):
    cache = {}
    out = []
    pos = 0
    for kind, width in items:
        order = cache.get(kind)
        if order is None:
            order = [table[pos + i] for i in range(width)]
            cache[kind] = order
        out.append(order)
        pos += width
    return out
def good(items, table):
    cache = {}
    out = []
    for kind, width in items:
        order = cache.get(kind)
        if order is None:
            order = [table[kind][i] for i in range(3)]
            cache[kind] = order
        out.append(order)
    return out
'''


def _names(e):
    return {x.id for x in ast.walk(e) if isinstance(x, ast.Name)}


def stale_memo_sites(func):
    """[(store statement, key expr, offending variable)] for local memo tables keyed too coarsely."""
    out = []
    dicts = {t.id for n in func.own_nodes() if isinstance(n, ast.Assign) and isinstance(n.value, ast.Dict) and not n.value.keys for t in n.targets if isinstance(t, ast.Name)}
    if not dicts:
        return out
    for loop in [n for n in func.own_nodes() if isinstance(n, (ast.For, ast.While))]:
        body_nodes = [x for s in loop.body for x in ast.walk(s)]
        stores = [x for x in body_nodes if isinstance(x, ast.Assign) and len(x.targets) == 1 and isinstance(x.targets[0], ast.Subscript) and isinstance(x.targets[0].value, ast.Name) and x.targets[0].value.id in dicts]
        if not stores:
            continue
        # loop-variant names: assigned (or augmented) somewhere in the loop body, or the loop target
        variant = set()
        if isinstance(loop, ast.For):
            variant |= _names(loop.target)
        for x in body_nodes:
            if isinstance(x, (ast.Assign, ast.AugAssign, ast.AnnAssign)):
                for t in (x.targets if isinstance(x, ast.Assign) else [x.target]):
                    variant |= {y.id for y in ast.walk(t) if isinstance(y, ast.Name) and isinstance(y.ctx, ast.Store)}
            elif isinstance(x, (ast.For, ast.comprehension)):
                pass
        for st in stores:
            d = st.targets[0].value.id
            key = st.targets[0].slice
            # a read of the same table under the same key in this loop makes it a memo (not an accumulator)
            in_compare = {id(y) for x in body_nodes if isinstance(x, ast.Compare) for y in ast.walk(x)}
            reads = [x for x in body_nodes if id(x) not in in_compare and ((isinstance(x, ast.Call) and isinstance(x.func, ast.Attribute) and x.func.attr == "get" and isinstance(x.func.value, ast.Name) and x.func.value.id == d and x.args and src_of(x.args[0]) == src_of(key)) or (isinstance(x, ast.Subscript) and isinstance(x.ctx, ast.Load) and isinstance(x.value, ast.Name) and x.value.id == d and src_of(x.slice) == src_of(key)))]
            if not reads:
                continue
            keyvars = _names(key)
            # determined by the key: names whose every in-loop definition reads only key-determined names / constants
            determined = set(keyvars)
            changed = True
            defs = {}
            for x in body_nodes:
                if isinstance(x, ast.Assign) and len(x.targets) == 1 and isinstance(x.targets[0], ast.Name):
                    defs.setdefault(x.targets[0].id, []).append(x.value)
                elif isinstance(x, ast.AugAssign) and isinstance(x.target, ast.Name):
                    defs.setdefault(x.target.id, []).append(None)
            while changed:
                changed = False
                for nm, vals in defs.items():
                    if nm in determined or nm == d:
                        continue
                    if all(v is not None and (_names(v) & variant) <= determined for v in vals):
                        determined.add(nm)
                        changed = True
            # the cached value
            val = st.value
            vexprs = [val]
            if isinstance(val, ast.Name) and val.id in defs:
                vexprs = [v for v in defs[val.id] if v is not None and not (isinstance(v, ast.Call) and isinstance(v.func, ast.Attribute) and v.func.attr == "get")]
            local_targets = set()
            for v in vexprs:
                for c in ast.walk(v):
                    if isinstance(c, ast.comprehension):
                        local_targets |= _names(c.target)
            for v in vexprs:
                bad = sorted(((_names(v) & variant) - determined - local_targets - {d}))
                if bad:
                    out.append((st, key, bad[0]))
                    break
    return out


def check_local_memos(ctx, rid, funcs, label):
    from .. import AnalysisError
    from ..model import Program

    prog = ctx.prog
    hits = 0
    n = 0
    for f in funcs:
        n += 1
        for st, key, var in stale_memo_sites(f):
            hits += 1
            ctx.violate(rid, f"the local table `{src_of(st.targets[0].value)}` caches a value under the key `{src_of(key)}`, but the value also depends on `{var}`, which changes between loop iterations and is not determined by the key: a later item with the same key silently gets the first item's value", f, st)
    ov = dict(prog.overlay or {})
    ov["iodata/zz_selftest_memo.py"] = POSITIVE
    p2 = Program(prog.root, overlay=ov)
    nb = len(stale_memo_sites(p2.func("iodata.zz_selftest_memo.bad")))
    ng = len(stale_memo_sites(p2.func("iodata.zz_selftest_memo.good")))
    if nb != 1 or ng:
        raise AnalysisError(f"local-memo self-test failed: {nb}/1 seeded stale cache flagged, {ng} false alarms on the key-complete twin")
    if not hits:
        ctx.ok(rid, f"{n} {label}: no local memo table whose cached value depends on more than its key (positive control: seeded stale cache flagged, key-complete twin silent)", "iodata/")
