"""C07 -- loading ends in a valid object or a LoadError (structural clauses)."""

from __future__ import annotations

import ast

import numpy as np

from .. import AnalysisError
from ..astutil import attr_chain, bind_call, raises_class, walk_stmts
from ..excflow import IODATA_ERRORS, ExcFlow, _classes_of_handler, report_escapes
from ..littype import lit_locals
from ..model import src_of

PROP = "C07"
LEVEL = "other"
TECHNIQUE = "static analysis: interprocedural may-escape exception flow (PEP 479 aware), with-statement pairing, dataflow of the file argument into every LoadError, min-plus line-consumption dataflow for loop termination, attrs schema model"
EXPLANATION = (
    "Static decision of the structural clauses of C07: (R1) funnel completeness -- the may-escape set of "
    "api.load_one/load_many, computed interprocedurally over all 25 loaders, contains only LoadError, "
    "FileFormatError and the OS error of opening; the handlers re-raise LoadError, convert StopIteration and "
    "Exception to LoadError carrying the line iterator; the API decorator is transparent; (R2) every open() "
    "is a with-context (or LineIterator.__enter__ paired with close in __exit__) and LineIterator is only "
    "instantiated as a with-context; (R3) every LoadError constructed in the package passes the line "
    "iterator, its filename, or a filename parameter as file argument; (R4) loaders are non-recursive and "
    "every while-loop cycle consumes at least one line net of push-backs or strictly advances a variable of "
    "its test (min-plus dataflow, callee summaries separated by return/raise); (R5) every array-valued field "
    "of IOData, MolecularOrbitals, Shell and Cube carries a validate_shape validator.  Declined: the value of "
    "the line number reported, byte-level truncation inside multi-byte characters, wall-clock bounds."
)
TECHNIQUE += '; control-dependence comparison of parallel per-record list appends; empty-dict path sensitivity in the termination analysis'
EXPLANATION += " Added: (R7) lists appended in one record loop under the same guards form a group; no sibling list is appended under an extra condition (unequal lengths); R4 now proves the Molden [MO] loop through an 'empty dict' pseudo-flag (info[<const>] on an empty dict ends the path) instead of a frozen exception."
TECHNIQUE += '; all-paths-raise computation on the funnel handlers'
EXPLANATION += ' R1 also requires every handler of the API funnels (other than the unreachable StopIteration handler of the generator funnel) to end in raise on all paths.'
TRUSTED = [
    "CPython ast parser", "PEP 479 (StopIteration leaving a generator body becomes RuntimeError)",
    "with-statement calls __exit__ on every exit including GeneratorExit",
    "attrs runs validators on construction and assignment",
    "whitelisted total externals (os.path.basename, fnmatch, hasattr, warnings.warn, ...) do not raise",
]

API_LOADERS = ("iodata.api.load_one", "iodata.api.load_many")
EXPLANATION += ' (R9) counted record loops (`for i in range(n)` consuming a line per iteration) store row i on every completed iteration (CFG must-pass). (R8) a callee that receives both a line and the iterator is not called after that line was put back (its errors would carry an earlier line number). (R6) LineIterator pairs every consumed line with +1 and every pushed-back line with -1 on `lineno`. R1 also forbids the funnel decorator to change the warning filters around the loader.'
# --- metadata added for batch 7
TECHNIQUE += '; who-may-touch rule for the raw file handle; decision-table evaluation of the format selection; message composition evaluated'
EXPLANATION += " Added: (R10) the text of a LoadError is `message (file:line)` (composition evaluated); R1 also forbids return / break / continue in `finally` and contextlib.suppress in the funnels; R4 covers `for line in lit` loops with push-back; R5 is a 19-row decision table of validate_shape plus the frozen field -> arguments schema (spec/validators.json); (R11) only LineIterator's methods use its `fh` (json.load of the whole document is the one hand-over, by callee); (R12) `_select_format_module` as a decision table on a model registry: a module without the requested feature is never returned, the answer is a module that has it or FileFormatError."
# --- end metadata batch 7
# --- metadata added for batch 8
TECHNIQUE += '; premise check of the frozen termination exception on the CFG'
EXPLANATION += ' R4: the one frozen termination exception (the CP2K basis reader) is only granted while its reason holds on the CFG -- every path from the push-back to the loop head passes the statement that raises for an empty block. R7 counts rows of pre-allocated arrays filled in a counted loop as members of the record group; a member stored on both branches of an `if` is unconditional.'
# --- end metadata batch 8
# --- metadata added after the round-2 refactoring twins
TECHNIQUE += '; evaluation of the exception constructor / renderer (super() of the exception bases modelled)'
EXPLANATION += " R10: BaseFileError is no longer matched by statement: its constructor and __str__ are interpreted for every kind of file argument and the attributes (filename, lineno) and the rendered text are compared with the expected ones. R6: stores to `.lineno` through tuple targets are seen; `self.lineno` of a class that does not derive from LineIterator is that object's own attribute."
# --- end metadata round-2 twins
# --- metadata added after the round-3 refactoring twins
TECHNIQUE += '; scenario evaluation of the LineIterator class; per-case line consumption of dictionary-returning helpers'
EXPLANATION += ' R6: the LineIterator class is interpreted on a model file of four lines through a script of ten reads and push-backs (counter from 0, one per read, minus one per push-back, last-in first-out before the file, StopIteration at the end, close on exit). R4: a dictionary a module helper returns carries the helper\'s minimum line consumption separately for "returned empty" and "returned filled", so that `info = helper(lit); info["key"]` keeps the progress argument of the inlined loop.'
# --- end metadata round-3 twins
# --- metadata added after the round-4 refactoring twins
EXPLANATION += ' R4: a step that is handed on unchanged through the parameters of two functions is positive if it is at every outer call site.'
# --- end metadata round-4 twins
# --- metadata added after the round-5 refactoring twins
EXPLANATION += ' R9: an inner loop over a literal sequence (also through enumerate / zip, or range with constant bounds) certainly runs; for arrays that start from defined values the "iteration without a store" clause looks at continue / branches of the record loop itself, not at an inner loop over the words of the record. R4: the premise of the frozen CP2K exception may be satisfied through a helper that takes coeffs.shape[1] unconditionally.'
# --- end metadata round-5 twins


def _derives_from(prog, cls, base):
    seen, todo = set(), [cls]
    while todo:
        c = todo.pop()
        if c is base:
            return True
        if c is None or c.qualname in seen:
            continue
        seen.add(c.qualname)
        for b in c.node.bases:
            r = prog.resolve_expr(None, c.module, b)
            if r is not None and r[0] == "class":
                todo.append(r[1])
    return False


def run(ctx):
    prog = ctx.prog
    ef = ExcFlow(prog)
    lits = lit_locals(prog)
    ctx.clauses_decided = ["R1 funnel completeness", "R2 file always closed", "R3 every LoadError names the file", "R4 termination", "R5 schema validators"]
    ctx.clauses_declined = ["value of the reported line number", "byte-level truncation inside multi-byte characters", "wall-clock bounds"]
    lit_cls = prog.cls("iodata.utils.LineIterator")
    iodata_cls = prog.cls("iodata.iodata.IOData")

    # ------------------------------------------------------------------ R1
    ctx.rule("R1", "only LoadError / FileFormatError (and the OS error of open) can leave load_one / load_many", "any other exception type escaping the API on some file content")
    nload = 0
    for q in API_LOADERS:
        f = prog.func(q)
        report_escapes(ctx, "R1", f, ef.escapes(f), {"LoadError", "FileFormatError"})
        # handler details
        withs = [n for n in f.own_nodes() if isinstance(n, ast.With) and any(isinstance(it.context_expr, ast.Call) and (prog.resolve_expr(f, f.module, it.context_expr.func) or (None, None))[1] is lit_cls for it in n.items)]
        if len(withs) != 1:
            ctx.violate("R1", f"{f.name}: expected exactly one `with LineIterator(..)`", f, f.node, construct="with LineIterator")
            continue
        w = withs[0]
        litname = [it.optional_vars.id for it in w.items if isinstance(it.optional_vars, ast.Name)][0]
        tries = [s for s in walk_stmts(w.body) if isinstance(s, ast.Try)]
        regcalls = [cs for cs in f.calls if cs.registry_op]
        ctor = [cs for cs in f.calls if cs.cls is iodata_cls]
        nload += len(regcalls[0].callees) if regcalls else 0
        if len(tries) != 1 or not regcalls or not ctor:
            ctx.violate("R1", f"{f.name}: cannot find the single try funnel / format call / IOData construction", f, w, construct="funnel shape")
            continue
        t = tries[0]
        inside = {id(n) for s in t.body for n in ast.walk(s)}
        for cs in regcalls + ctor:
            if id(cs.node) in inside:
                ctx.ok("R1", f"{f.name}: `{src_of(cs.node)[:50]}` is inside the funnel", f"{f.module.relpath}:{cs.node.lineno}")
            else:
                ctx.violate("R1", f"{f.name}: `{src_of(cs.node)[:60]}` runs outside the try funnel", f, cs.node)
        # which handler gets which class
        def handler_for(cls):
            for h in t.handlers:
                c = _classes_of_handler(prog, f, h.type)
                if c is None or cls in c:
                    return h
            return None
        hL = handler_for("LoadError")
        if hL is not None and len(hL.body) == 1 and isinstance(hL.body[0], ast.Raise) and hL.body[0].exc is None:
            ctx.ok("R1", f"{f.name}: LoadError is re-raised unchanged", f"{f.module.relpath}:{hL.lineno}")
        else:
            ctx.violate("R1", f"{f.name}: a LoadError raised by a loader is not re-raised unchanged", f, hL or t, construct="LoadError handler")
        for cls in ("Other", "StopIteration"):
            h = handler_for(cls)
            if h is None:
                ctx.violate("R1", f"{f.name}: no handler converts {cls}", f, t, construct=f"handler for {cls}")
                continue
            last = h.body[-1]
            if isinstance(last, ast.Raise) and raises_class(last) == "LoadError":
                args = last.exc.args if isinstance(last.exc, ast.Call) else []
                kw = {k.arg: k.value for k in last.exc.keywords} if isinstance(last.exc, ast.Call) else {}
                farg = args[1] if len(args) > 1 else kw.get("file")
                if isinstance(farg, ast.Name) and farg.id == litname:
                    ctx.ok("R1", f"{f.name}: {cls} -> LoadError carrying the line iterator", f"{f.module.relpath}:{h.lineno}")
                else:
                    ctx.violate("R1", f"{f.name}: {cls} is converted to a LoadError without the line iterator (no file:line in the message)", f, last)
            elif cls == "StopIteration" and f.is_generator and isinstance(last, ast.Return):
                ctx.ok("R1", f"{f.name}: StopIteration handler returns (unreachable for generator loaders: PEP 479)", f"{f.module.relpath}:{h.lineno}")
            else:
                ctx.violate("R1", f"{f.name}: handler for {cls} does not raise LoadError", f, h)
        # no handler of the funnel may complete normally (that would turn a failure into a short but valid result);
        # the one exception is a handler for StopIteration alone in the generator funnel (unreachable: PEP 479)
        for h in t.handlers:
            only_si = isinstance(h.type, ast.Name) and h.type.id == "StopIteration"
            if _ends_raising(h.body) or (only_si and f.is_generator):
                continue
            ctx.violate("R1", f"{f.name}: the handler `except {src_of(h.type) if h.type is not None else ''}` can complete without raising: the error is swallowed and the caller gets a (shorter) result", f, h)
        # nothing on the API load path may change the warning filters: a LoadWarning escalated to an error by the caller
        # must be raised inside the parser (and funnelled), not recorded and re-issued outside the funnel
        for g in [f] + [d_ for dd in f.decorators for r_ in [prog.resolve_expr(None, f.module, dd.func if isinstance(dd, ast.Call) else dd)] if r_ and r_[0] == "func" for d_ in [r_[1]] + list(r_[1].nested.values())]:
            for cs in g.calls:
                if cs.external in ("warnings.simplefilter", "warnings.filterwarnings", "warnings.resetwarnings"):
                    ctx.violate("R1", f"{g.name} changes the warning filters ({cs.external}) around the loader: a warning the caller turned into an error is no longer raised inside the funnel but re-issued outside it, so a LoadWarning (not a LoadError) escapes", g, cs.node)
        # decorators are transparent
        for d in f.decorators:
            r = prog.resolve_expr(None, f.module, d.func if isinstance(d, ast.Call) else d)
            if not (r and r[0] == "func"):
                ctx.violate("R1", f"{f.name}: decorator `{src_of(d)}` cannot be resolved", f, d)
                continue
            deco = r[1]
            inner = list(deco.nested.values())
            bad = []
            for g in inner:
                for n in g.own_nodes():
                    if isinstance(n, ast.ExceptHandler):
                        bad.append(n)
            rets = [n for g in inner for n in g.own_nodes() if isinstance(n, ast.Return)]
            if bad:
                ctx.violate("R1", f"decorator {deco.name} contains an exception handler (may swallow or change loader errors)", deco, bad[0])
            else:
                ctx.ok("R1", f"decorator {deco.name} has no exception handler (only finally)", deco.where)
    ctx.floor("R1", nload, 28, "loader implementations behind the funnel")

    # ------------------------------------------------------------------ R2
    ctx.rule("R2", "every opened file is closed on all exits", "a leaked descriptor after an error or a discarded frame iterator")
    nopen = 0
    for f in prog.package_funcs():
        pm = None
        for cs in f.calls:
            if cs.external == "builtins.open":
                nopen += 1
                pm = pm or prog.parents(f)
                par = pm.get(id(cs.node))
                if isinstance(par, ast.withitem):
                    ctx.ok("R2", "open() is a with-context", f"{f.module.relpath}:{cs.node.lineno}")
                elif f.cls is not None and f.name == "__enter__" and isinstance(par, ast.Assign) and isinstance(par.targets[0], ast.Attribute) and isinstance(par.targets[0].value, ast.Name) and par.targets[0].value.id == "self":
                    attr = par.targets[0].attr
                    ex = f.cls.methods.get("__exit__")
                    closes = ex is not None and any(
                        isinstance(n, ast.Call) and isinstance(n.func, ast.Attribute) and n.func.attr == "close" and attr_chain(n.func.value) == ["self", attr]
                        for n in ex.own_nodes()
                    )
                    uncond = ex is not None and all(not isinstance(n, (ast.If, ast.Try, ast.Return)) for n in ex.own_nodes())
                    if closes and uncond:
                        ctx.ok("R2", f"{f.cls.name}.__enter__ opens self.{attr}; __exit__ closes it unconditionally", f"{f.module.relpath}:{cs.node.lineno}")
                    else:
                        ctx.violate("R2", f"{f.cls.name}.__exit__ does not unconditionally close self.{attr}", f, cs.node)
                else:
                    ctx.violate("R2", "open() outside a with statement (descriptor may leak on error)", f, cs.node)
    ninst = 0
    for f in prog.package_funcs():
        for cs in f.calls:
            if cs.cls is lit_cls:
                ninst += 1
                par = prog.parents(f).get(id(cs.node))
                if isinstance(par, ast.withitem):
                    ctx.ok("R2", "LineIterator(...) is a with-context", f"{f.module.relpath}:{cs.node.lineno}")
                else:
                    ctx.violate("R2", "LineIterator instantiated outside a with statement", f, cs.node)
    ex = lit_cls.methods.get("__exit__")
    if ex is not None and any(isinstance(n, ast.Return) and n.value is not None and not (isinstance(n.value, ast.Constant) and not n.value.value) for n in ex.own_nodes()):
        ctx.violate("R2", "LineIterator.__exit__ returns a truthy value (suppresses exceptions)", ex, ex.node)
    ctx.floor("R2", nopen, 4, "open() sites")
    ctx.floor("R2", ninst, 2, "LineIterator instantiations")

    # ------------------------------------------------------------------ R3
    ctx.rule("R3", "every LoadError names the file", "an error message without the file name")
    le = prog.cls("iodata.utils.LoadError")
    nsites = 0
    for f in prog.package_funcs():
        mylits = set(lits.get(f.qualname, ()))
        p = f.parent
        while p is not None:
            mylits |= lits.get(p.qualname, set())
            p = p.parent
        for cs in f.calls:
            if cs.cls is not le:
                continue
            nsites += 1
            call = cs.node
            kw = {k.arg: k.value for k in call.keywords}
            farg = call.args[1] if len(call.args) > 1 else kw.get("file")
            where = f"{f.module.relpath}:{call.lineno}"
            if farg is None:
                ctx.violate("R3", "LoadError constructed without a file argument (message cannot name the file)", f, call)
                continue
            if isinstance(farg, ast.Name):
                if farg.id in mylits:
                    ctx.ok("R3", "file argument is the line iterator", where, sample=False)
                elif farg.id in f.params and "file" in farg.id.lower():
                    ctx.ok("R3", f"file argument is the filename parameter `{farg.id}`", where)
                else:
                    ctx.violate("R3", f"file argument `{farg.id}` is neither the line iterator nor a filename parameter", f, call)
                continue
            ch = attr_chain(farg)
            if ch and len(ch) == 2 and ch[0] in mylits:
                if ch[1] == "filename":
                    ctx.ok("R3", "file argument is <lit>.filename", where, sample=False)
                elif ch[1] in ("fh", "lineno", "stack"):
                    ctx.violate("R3", f"file argument is <lit>.{ch[1]}, not the file", f, call)
                else:
                    ctx.note(f"{where}: LoadError(..., {src_of(farg)}) reads an unknown attribute of the line iterator; evaluating it raises AttributeError, which the API funnel converts to a LoadError that names the file")
                    ctx.ok("R3", f"unknown attribute <lit>.{ch[1]}: AttributeError funnelled (see note)", where)
                continue
            ctx.violate("R3", f"file argument `{src_of(farg)}` does not resolve to the line iterator or a filename", f, call)
    ctx.floor("R3", nsites, 85, "LoadError construction sites")

    # ------------------------------------------------------------------ R4
    from ..consumption import check_termination

    ctx.rule("R4", "loaders terminate: no recursion; every while-cycle consumes a line or advances its test variable", "a file content on which a parser spins forever")
    check_termination(ctx, prog, lits)

    # ------------------------------------------------------------------ R5
    ctx.rule("R5", "array-valued fields carry shape validators", "a successfully constructed object with mutually inconsistent array shapes")
    nf = 0
    for cq in ("iodata.iodata.IOData", "iodata.orbitals.MolecularOrbitals", "iodata.basis.Shell", "iodata.utils.Cube"):
        ci = prog.cls(cq)
        for name, st in ci.fields.items():
            if not isinstance(st, ast.AnnAssign):
                continue
            if not any(isinstance(x, ast.Name) and x.id == "NDArray" for x in ast.walk(st.annotation)):
                continue
            nf += 1
            has = st.value is not None and any(
                isinstance(c, ast.Call) and isinstance(c.func, ast.Name) and c.func.id == "validate_shape" and (c.args)
                for c in ast.walk(st.value)
            )
            vkw = None
            if isinstance(st.value, ast.Call):
                for k in st.value.keywords:
                    if k.arg == "validator":
                        vkw = k.value
            in_validator = vkw is not None and any(isinstance(c, ast.Call) and getattr(c.func, "id", "") == "validate_shape" for c in ast.walk(vkw))
            if has and in_validator:
                ctx.ok("R5", f"{ci.name}.{name}: validate_shape present", f"{ci.module.relpath}:{st.lineno}", sample=(nf % 6 == 1))
            else:
                ctx.violate("R5", f"array field {ci.name}.{name} has no validate_shape validator", relpath=ci.module.relpath, function=ci.qualname, construct=f"field {name}")
    ctx.floor("R5", nf, 20, "array-valued fields")
    check_validate_shape(ctx, "R5")
    check_validator_schema(ctx, "R5")
    check_line_counter(ctx)
    check_parallel_lists(ctx)
    check_parse_before_back(ctx)
    check_counted_fill(ctx)
    ctx.rule("R10", "the text of a LoadError is `message (file:line)` (composition evaluated)", "errors that carry the file object print without the file name or the line number")
    check_message_composition(ctx, "R10")
    check_no_swallowing_constructs(ctx, "R1")
    check_lineiterator_lifo(ctx, "R6")
    ctx.rule("R11", "only LineIterator reads the file behind it", "lines read from the raw file handle are not counted: every later LoadError names a line that was passed long ago")
    check_file_handle_owner(ctx, "R11")
    ctx.rule("R12", "a format that cannot do what is asked is reported as FileFormatError by the selection step (decision table, evaluated)", "load_many('x.cube'): the missing attribute surfaces inside the loader funnel as `LoadError: Uncaught exception`, dump_* leak AttributeError")
    from .c17 import check_selection_table

    check_selection_table(ctx, "R12", which=("format",))


#: whole-document formats that hand the raw file to a parser of their own before any line is consumed
FH_HANDOVER_OK = {
    "json.load": "JSON is not line-oriented: the document is parsed in one piece, a JSON error has no line of this iterator to name",
}


def check_file_handle_owner(ctx, rid):
    """Who-may-touch rule: the `fh` attribute (the open file) of a LineIterator is used by the methods of LineIterator
    only.  A parser that reads from it directly consumes lines behind the iterator's back: `lineno` stops moving and
    the line named in any later error is wrong."""
    prog = ctx.prog
    licls = prog.cls("iodata.utils.LineIterator")
    own = [f for f in prog.funcs.values() if f.cls is licls]
    n_own = sum(1 for f in own for x in f.own_nodes() if isinstance(x, ast.Attribute) and x.attr == "fh")
    if n_own < 3:
        raise AnalysisError("LineIterator no longer keeps its file in `fh`: the owner rule has lost its anchor")
    seen_ok = set()
    for f in prog.funcs.values():
        if f.cls is licls or not f.module.name.startswith("iodata.") or ".test" in f.module.name:
            continue
        pm = None
        for x in f.own_nodes():
            if not (isinstance(x, ast.Attribute) and x.attr == "fh"):
                continue
            # the base must be a line iterator: a parameter / local named or annotated as such
            base = x.value
            is_lit = isinstance(base, ast.Name) and (base.id == "lit" or "LineIterator" in (f.annotations.get(base.id, "") if hasattr(f, "annotations") else ""))
            if not is_lit:
                continue
            pm = pm or prog.parents(f)
            call = pm.get(id(x))
            handed = None
            if isinstance(call, ast.Call) and any(a is x for a in call.args):
                r = prog.resolve_expr(f, f.module, call.func)
                handed = r[1] if r and r[0] in ("ext", "external") else (src_of(call.func) if r is None else None)
            if handed in FH_HANDOVER_OK:
                seen_ok.add(handed)
                ctx.ok(rid, f"{f.qualname}: the file is handed to {handed} ({FH_HANDOVER_OK[handed]})", f"{f.module.relpath}:{x.lineno}")
                continue
            ctx.violate(rid, f"{f.qualname} uses the raw file handle `{src_of(x)}` of the line iterator: lines read this way are not counted, a later LoadError names the wrong line (and pushed-back lines are skipped)", f, x)
    ctx.ok(rid, f"LineIterator: {n_own} uses of its own file handle; no parser reads it directly (besides {len(seen_ok)} whole-document hand-over)", f"{licls.module.relpath}:{licls.node.lineno}")


def _outcomes(stmts):
    """Set of ways a statement list can end: 'fall' (runs off its end), 'raise', 'exit' (return/break/continue)."""
    out = set()
    for st in stmts:
        if isinstance(st, ast.Raise):
            out.add("raise")
            return out
        if isinstance(st, (ast.Return, ast.Break, ast.Continue)):
            out.add("exit")
            return out
        if isinstance(st, ast.If):
            o = _outcomes(st.body) | _outcomes(st.orelse)
        elif isinstance(st, (ast.With, ast.AsyncWith)):
            o = _outcomes(st.body)
        elif isinstance(st, (ast.For, ast.While)):
            o = {x for x in _outcomes(st.body) if x == "raise"} | {"fall"}
            if any(isinstance(x, ast.Return) for b in st.body for x in ast.walk(b)):
                o.add("exit")
        elif isinstance(st, ast.Try):
            o = _outcomes(st.body + st.orelse)
            for h in st.handlers:
                o |= _outcomes(h.body)
            if st.finalbody:
                fo = _outcomes(st.finalbody)
                if "fall" not in fo:
                    o = fo
                else:
                    o |= fo - {"fall"}
        else:
            o = {"fall"}
        out |= o - {"fall"}
        if "fall" not in o:
            return out
    out.add("fall")
    return out


def _ends_raising(stmts):
    """Every path through the statement list ends in a raise."""
    return _outcomes(stmts) == {"raise"}


def check_counted_fill(ctx):
    """R9: a counted record loop of a loader fills row i in iteration i.

    In `for i in range(n)` loops that store into arrays at index i, every iteration that completes normally has stored
    into at least one of them, and into each array that was allocated without initial values (np.empty); otherwise a
    skipped record (a `continue` for a blank or comment line) leaves a row of uninitialised memory in the result and
    the per-record lists of the same loop come out shorter than the arrays."""
    from ..cfg import cfg_of

    prog = ctx.prog
    ctx.rule("R9", "counted record loops fill every row they count", "a skipped record leaves an uninitialised row and arrays / lists of different lengths in the returned object")
    nloops = 0
    for f in prog.package_funcs():
        if not f.module.name.startswith("iodata.formats.") or f.name.startswith(("dump", "_dump", "prepare")):
            continue
        for n in f.own_nodes():
            if not (isinstance(n, ast.For) and isinstance(n.target, ast.Name) and isinstance(n.iter, ast.Call) and isinstance(n.iter.func, ast.Name) and n.iter.func.id == "range"):
                continue
            i = n.target.id
            stores = []
            for st in ast.walk(n):
                if isinstance(st, (ast.Assign, ast.AugAssign)):
                    tg = st.targets if isinstance(st, ast.Assign) else [st.target]
                    flat = []
                    for t in tg:
                        flat.extend(t.elts if isinstance(t, (ast.Tuple, ast.List)) else [t])
                    for t in flat:
                        if isinstance(t, ast.Subscript) and isinstance(t.value, ast.Name):
                            first = t.slice.elts[0] if isinstance(t.slice, ast.Tuple) and t.slice.elts else t.slice
                            if isinstance(first, ast.Name) and first.id == i:
                                stores.append((t.value.id, st))
            if not stores:
                continue
            # only loops that consume input per iteration are record loops
            if not any(isinstance(x, ast.Call) and isinstance(x.func, ast.Name) and x.func.id == "next" for x in ast.walk(n)):
                continue
            nloops += 1
            cfg = cfg_of(f)
            head, body0 = cfg.idx(n), cfg.idx(n.body[0])
            # a store inside an inner loop that certainly runs (range(k) with a positive literal k, a non-empty literal
            # sequence) and cannot be left early is represented by that loop: reaching the loop is reaching the store
            pm_ = prog.parents(f)

            def certain(st_):
                cur_ = st_
                while id(cur_) in pm_ and pm_[id(cur_)] is not n:
                    par_ = pm_[id(cur_)]
                    if isinstance(par_, ast.For):
                        it_ = par_.iter
                        lit_seq = lambda x_: isinstance(x_, (ast.Tuple, ast.List)) and len(x_.elts) >= 1
                        runs = (
                            (isinstance(it_, ast.Call) and isinstance(it_.func, ast.Name) and it_.func.id == "range" and len(it_.args) == 1 and isinstance(it_.args[0], ast.Constant) and isinstance(it_.args[0].value, int) and it_.args[0].value >= 1)
                            or (isinstance(it_, ast.Call) and isinstance(it_.func, ast.Name) and it_.func.id == "range" and len(it_.args) in (2, 3) and all(isinstance(a_, ast.Constant) and isinstance(a_.value, int) for a_ in it_.args) and len(range(*[a_.value for a_ in it_.args])) >= 1)
                            or lit_seq(it_)
                            or (isinstance(it_, ast.Call) and isinstance(it_.func, ast.Name) and it_.func.id == "enumerate" and it_.args and lit_seq(it_.args[0]))
                            or (isinstance(it_, ast.Call) and isinstance(it_.func, ast.Name) and it_.func.id == "zip" and it_.args and all(lit_seq(a_) for a_ in it_.args))
                        )
                        first_ = par_.body[0] is cur_ or any(cur_ is b for b in par_.body) and not any(isinstance(x, (ast.Break, ast.Continue, ast.If, ast.Try)) for b in par_.body[: par_.body.index(cur_)] for x in ast.walk(b))
                        if runs and first_ and not par_.orelse:
                            st_ = par_
                    cur_ = par_
                return st_

            def loose(st_):
                """The outermost inner loop (of any kind) that holds the store: for arrays that start from defined values
                a record whose inner loop over its own words runs zero times is the file's business, not a skipped
                record -- the clause is about `continue` / branches at the level of the record loop."""
                cur_, out_ = st_, st_
                while id(cur_) in pm_ and pm_[id(cur_)] is not n:
                    cur_ = pm_[id(cur_)]
                    if isinstance(cur_, ast.For) and not cur_.orelse:
                        out_ = cur_
                return out_

            loose_all = [cfg.idx(loose(st_)) for _, st_ in stores]
            stores = [(a_, certain(st_)) for a_, st_ in stores]
            allst = [cfg.idx(st) for _, st in stores]
            where = f"{f.module.relpath}:{n.lineno}"
            if body0 not in loose_all and not cfg.must_pass([head], loose_all, start=body0):
                ctx.violate("R9", f"{f.name}: an iteration of `for {i} in range(...)` can complete without storing anything at index {i} ({', '.join(sorted({a for a, _ in stores}))}): the record count advances but row {i} stays unfilled", f, n, construct=f"counted loop over {i}: iteration without a store")
                continue
            bad = []
            for name in sorted({a for a, _ in stores}):
                alloc = [x for x in f.own_nodes() if isinstance(x, ast.Assign) and any(isinstance(t, ast.Name) and t.id == name for t in x.targets) and isinstance(x.value, ast.Call)]
                empty = any(isinstance(a.value.func, ast.Attribute) and a.value.func.attr in ("empty", "empty_like") for a in alloc)
                th = [cfg.idx(st) for a, st in stores if a == name]
                if empty and body0 not in th and not cfg.must_pass([head], th, start=body0):
                    bad.append(name)
            if bad:
                ctx.violate("R9", f"{f.name}: `{bad[0]}` is allocated without initial values (np.empty) and an iteration of the record loop can complete without storing `{bad[0]}[{i}]`", f, n, construct=f"counted loop over {i}: {bad[0]} not always stored")
            else:
                ctx.ok("R9", f"{f.name}: every iteration stores row {i} ({', '.join(sorted({a for a, _ in stores}))})", where)
    ctx.floor("R9", nloops, 8, "counted record loops in loaders")


def check_parse_before_back(ctx):
    """R8: a line is parsed before it is put back.

    `lit.back(v)` lowers the line counter.  A callee that gets both the text `v` and the iterator reports errors about
    that text with `lit.lineno`; called after the put-back it names a line *before* the one it complains about."""
    from ..cfg import cfg_of

    prog = ctx.prog
    ctx.rule("R8", "a line handed to a parser together with the iterator has not been put back yet", "a LoadError about that line carries the number of an earlier line (for the first frame: line 0)")
    nback = 0
    for f in prog.package_funcs():
        if not f.module.name.startswith("iodata.formats."):
            continue
        backs = []
        for cs in f.calls:
            fn = cs.node.func
            if isinstance(fn, ast.Attribute) and fn.attr == "back" and isinstance(fn.value, ast.Name) and len(cs.node.args) == 1 and isinstance(cs.node.args[0], ast.Name):
                backs.append((fn.value.id, cs.node.args[0].id, cs.node))
        if not backs:
            continue
        cfg = cfg_of(f)
        pm = prog.parents(f)

        def stmt_of(node):
            cur = node
            while not isinstance(cur, ast.stmt):
                cur = pm[id(cur)]
            return cur

        for litname, var, node in backs:
            nback += 1
            start = cfg.idx(stmt_of(node))
            # statements that give `var` a new value end the search along that path
            rebind = set()
            for nd in cfg.stmts():
                st = nd.stmt
                tg = []
                if isinstance(st, ast.Assign):
                    tg = st.targets
                elif isinstance(st, (ast.AugAssign, ast.AnnAssign)):
                    tg = [st.target]
                elif isinstance(st, ast.For):
                    tg = [st.target]
                if any(isinstance(x, ast.Name) and x.id == var for t in tg for x in ast.walk(t)) and nd.idx != start:
                    rebind.add(nd.idx)
            reach = cfg.reachable(start, avoid=rebind) - {start}
            bad = None
            for nd in cfg.stmts():
                if nd.idx not in reach:
                    continue
                own = [nd.stmt] if not isinstance(nd.stmt, (ast.If, ast.While, ast.For, ast.With, ast.Try)) else [getattr(nd.stmt, "test", None) or getattr(nd.stmt, "iter", None)]
                for root in own:
                    if root is None:
                        continue
                    for c in ast.walk(root):
                        if isinstance(c, ast.Call) and not (isinstance(c.func, ast.Attribute) and c.func.attr == "back"):
                            argn = [x.id for a in list(c.args) + [k.value for k in c.keywords] for x in ast.walk(a) if isinstance(x, ast.Name)]
                            if var in argn and litname in argn:
                                bad = c
                if bad is not None:
                    break
            if bad is None:
                ctx.ok("R8", f"{f.name}: `{var}` is not parsed with `{litname}` after `{litname}.back({var})`", f"{f.module.relpath}:{node.lineno}")
            else:
                ctx.violate("R8", f"{f.name}: `{src_of(bad)[:60]}` parses `{var}` with the iterator after `{litname}.back({var})` (line {node.lineno}): an error about that line is reported with the number of an earlier line", f, bad)
    ctx.floor("R8", nback, 15, "put-back sites in the format modules")


def check_parallel_lists(ctx):
    """R7: the per-record lists a loader fills in one loop grow together.

    In every loop of a loader-reachable function, local lists appended under the same chain of guards form a record
    group (atnums, atcoords, occupancies... of one ATOM line).  A list whose every append sits under a strict
    extension of the guard chain of a group with at least two other members can end up shorter than its siblings,
    and the arrays built from them then disagree on the number of records.
    """
    prog = ctx.prog
    ctx.rule("R7", "per-record lists filled in one loop are appended under the same conditions", "arrays of one record type come out with different lengths (inconsistent shapes in the result)")
    roots = []
    for short in prog.format_modules():
        for op in ("load_one", "load_many"):
            g = prog.format_op(short, op)
            if g:
                roots.append(g)
    ngroups = 0
    for f in prog.callees_closure(roots):
        pm = prog.parents(f)
        loops = {}
        for n in f.own_nodes():
            grows = None
            if isinstance(n, ast.Call) and isinstance(n.func, ast.Attribute) and n.func.attr == "append" and isinstance(n.func.value, ast.Name) and n.func.value.id in f.locals:
                grows = n.func.value.id
            elif isinstance(n, ast.Assign) and len(n.targets) == 1 and isinstance(n.targets[0], ast.Subscript) and isinstance(n.targets[0].value, ast.Name) and n.targets[0].value.id in f.locals:
                # row i of a pre-allocated array, i being the variable of the enclosing counted loop: the array is a
                # member of the record group just like a list that is appended to
                sl = n.targets[0].slice
                first = sl.elts[0] if isinstance(sl, ast.Tuple) and sl.elts else sl
                if isinstance(first, ast.Name):
                    cur_ = n
                    while id(cur_) in pm:
                        cur_ = pm[id(cur_)]
                        if isinstance(cur_, ast.For):
                            if isinstance(cur_.target, ast.Name) and cur_.target.id == first.id:
                                grows = n.targets[0].value.id
                            break
            if grows is not None:
                cur, conds, loop = n, [], None
                while id(cur) in pm:
                    p = pm[id(cur)]
                    if isinstance(p, (ast.For, ast.While)) and any(cur is b for b in p.body):
                        loop = p
                        break
                    if isinstance(p, ast.If):
                        conds.append((any(cur is b for b in p.body), id(p)))
                    elif isinstance(p, (ast.For, ast.While, ast.Try, ast.With)):
                        conds.append((True, id(p)))
                    cur = p
                if loop is not None:
                    loops.setdefault(id(loop), (loop, {}))[1].setdefault(grows, []).append((tuple(reversed(conds)), n))
        for loop, lists in loops.values():
            # a member stored on both branches of one `if` is stored unconditionally at the level of that `if`
            for name in list(lists):
                apps = list(lists[name])
                changed = True
                while changed:
                    changed = False
                    for c1, n1 in apps:
                        if c1 and isinstance(c1[-1], tuple) and c1[-1][0] is True:
                            twin_ = next(((c2, n2) for c2, n2 in apps if len(c2) == len(c1) and c2[:-1] == c1[:-1] and c2[-1] == (False, c1[-1][1])), None)
                            if twin_ is not None:
                                apps = [(c, n_) for c, n_ in apps if (c, n_) not in ((c1, n1), twin_)] + [(c1[:-1], n1)]
                                changed = True
                                break
                lists[name] = apps
            chains = {}
            for name, apps in lists.items():
                cs = {c for c, _ in apps}
                if len(cs) == 1:
                    chains.setdefault(next(iter(cs)), []).append(name)
            groups = {c: ns for c, ns in chains.items() if len(ns) >= 2}
            for c, ns in groups.items():
                ngroups += 1
                bad = []
                for name, apps in lists.items():
                    if name in ns:
                        continue
                    if all(len(c2) > len(c) and c2[: len(c)] == c for c2, _ in apps):
                        bad.append((name, apps[0][1]))
                if bad:
                    for name, node in bad:
                        ctx.violate("R7", f"`{name}` is appended only under an extra condition inside the record branch that appends {sorted(ns)} unconditionally: it can end up with fewer entries than its siblings", f, node)
                else:
                    ctx.ok("R7", f"{f.name}: record group {sorted(ns)[:6]}{'...' if len(ns) > 6 else ''} grows together", f"{f.module.relpath}:{loop.lineno}", sample=(ngroups % 5 == 1))
    ctx.floor("R7", ngroups, 12, "record groups of parallel lists")


def _check_line_iterator_scenario(ctx, lit_cls):
    """The LineIterator class interpreted on a model file of four lines: constructed, entered, read, pushed back and
    read again.  After every step the line returned and the counter are compared with what the documentation says:
    the counter starts at 0, grows by one per line read, shrinks by one per line pushed back; lines pushed back are
    read again, last pushed first, before the file is touched; the file's lines come in order; leaving closes it."""
    from ..accessors import AccessorEval, Raised, Rec
    from ..symarr import NotSymbolic

    prog = ctx.prog
    lines = ["L1\n", "L2\n", "L3\n", "L4\n"]
    events = []

    def open_stub(a, k):
        fh = Rec(None)
        it = iter(lines)
        events.append(("open", list(a), dict(k)))

        def nxt(a2, k2):
            try:
                return next(it)
            except StopIteration:
                raise Raised("StopIteration") from None

        fh.fields["__next__"] = ("<function>", nxt)
        fh.fields["readline"] = ("<function>", lambda a2, k2: next(it, ""))
        fh.fields["close"] = ("<function>", lambda a2, k2: events.append(("close",)))
        return fh

    ev = AccessorEval(prog, lit_cls, limit=4000)
    ev.module = lit_cls.module
    ev.ext_stubs = {"builtins.open": open_stub}
    steps = []
    bad = None
    try:
        lit = Rec(lit_cls)
        ev.call_method(lit, "__init__", ["FILE"], {})
        entered = ev.call_method(lit, "__enter__", [], {}) if "__enter__" in lit_cls.methods else lit
        if entered is not lit:
            bad = "entering the context manager does not give the iterator itself"
        if "__iter__" in lit_cls.methods and ev.call_method(lit, "__iter__", [], {}) is not lit:
            bad = bad or "iter(lit) is not the iterator itself"
        script = [("next", "L1\n", 1), ("next", "L2\n", 2), ("back", "L2\n", 1), ("back", "L1\n", 0), ("next", "L1\n", 1), ("next", "L2\n", 2), ("next", "L3\n", 3), ("back", "L3\n", 2), ("next", "L3\n", 3), ("next", "L4\n", 4)]
        if bad is None and ev.get(lit, "lineno") != 0:
            bad = f"the counter starts at {ev.get(lit, 'lineno')!r}, not at 0"
        for op, line, want_no in script:
            if bad:
                break
            if op == "next":
                got = ev.call_method(lit, "__next__", [], {})
                if got != line:
                    bad = f"after {steps}: the next line is {got!r}, expected {line!r} (lines pushed back are read again, last pushed first, before the file)"
            else:
                ev.call_method(lit, "back", [line], {})
            steps.append(op)
            if bad is None and ev.get(lit, "lineno") != want_no:
                bad = f"after {steps}: the counter is {ev.get(lit, 'lineno')!r}, expected {want_no} (one per line read, minus one per line pushed back)"
        if bad is None:
            try:
                ev.call_method(lit, "__next__", [], {})
                bad = "reading past the last line does not raise StopIteration"
            except Raised as exc:
                if exc.args[0] != "StopIteration":
                    bad = f"reading past the last line raises {exc.args[0]}"
        if bad is None and "__exit__" in lit_cls.methods:
            ev.call_method(lit, "__exit__", [None, None, None], {})
            if ("close",) not in events:
                bad = "leaving the context manager does not close the file"
        if bad is None and (len([e for e in events if e[0] == "open"]) != 1 or events[0][1][:1] != ["FILE"]):
            bad = f"the file opened is {events[0][1] if events else None!r}, not the file name given"
    except Raised as exc:
        bad = f"after {steps}: raises {exc.args[0]}"
    except NotSymbolic as exc:
        raise AnalysisError(f"LineIterator is outside the evaluation whitelist: {exc}") from exc
    nx = lit_cls.methods.get("__next__") or next(iter(lit_cls.methods.values()))
    if bad:
        ctx.violate("R6", f"LineIterator on a model file of four lines, {bad}", relpath=lit_cls.module.relpath, function=lit_cls.qualname, node=nx.node, construct=f"LineIterator scenario: {bad}"[:170])
    else:
        ctx.ok("R6", "LineIterator evaluated on a model file (10 reads / push-backs): the counter starts at 0 and follows every read and push-back, pushed-back lines come back last-in first-out before the file, the end raises StopIteration, leaving closes the file", f"{lit_cls.module.relpath}:{nx.lineno}")


def check_line_counter(ctx):
    """R6: the line counter is incremented on every successful read and decremented on every push-back."""
    from ..cfg import EXIT, cfg_of

    prog = ctx.prog
    ctx.rule("R6", "LineIterator counts every line read and every line pushed back exactly once", "error messages report a line number that drifts away from the last line read")
    lit_cls = prog.cls("iodata.utils.LineIterator")
    _check_line_iterator_scenario(ctx, lit_cls)
    # nobody else writes the counter
    for f in prog.package_funcs():
        if f.cls is lit_cls:
            continue
        for n in f.own_nodes():
            if isinstance(n, (ast.Assign, ast.AugAssign)):
                flat = []
                for t in (n.targets if isinstance(n, ast.Assign) else [n.target]):
                    flat.extend(x for x in ast.walk(t) if isinstance(x, ast.Attribute) and isinstance(x.ctx, ast.Store))
                for t in flat:
                    if t.attr != "lineno":
                        continue
                    # `self.lineno` in a method of another class is that object's own attribute (the error classes
                    # keep the position they report), not the iterator's counter
                    own = f.cls is not None and f.posparams and isinstance(t.value, ast.Name) and t.value.id == f.posparams[0] and not _derives_from(prog, f.cls, lit_cls)
                    if not own:
                        ctx.violate("R6", "the line counter is written outside LineIterator", f, n)


def check_validate_shape(ctx, rid):
    """The shape validator, evaluated on a decision table (shared by C07-R5, C11-R6 and C12-R1).

    The closure returned by `validate_shape(*requirements)` is interpreted for requirement tuples of every documented
    kind (integer, None, attribute name, (attribute, axis) pair) against object attributes and value shapes chosen so
    that each clause decides at least one row: an expected size of 0 is a size, None is the only wildcard, the number
    of dimensions counts, a mismatch is a TypeError and nothing else is."""
    from ..accessors import AccessorEval, Raised, Rec
    from ..symarr import NotSymbolic

    prog = ctx.prog
    vs = prog.func("iodata.attrutils.validate_shape")
    inner = [g for g in vs.nested.values()]
    if len(inner) != 1:
        raise AnalysisError("validate_shape no longer has a single validator closure")
    val = inner[0]
    req_name = vs.node.args.vararg.arg if vs.node.args.vararg is not None else (vs.posparams[0] if vs.posparams else None)
    if req_name is None:
        raise AnalysisError("validate_shape: cannot tell how the requirements are passed")
    arr = lambda *shape: np.zeros(shape)
    obj = lambda **kw: Rec(None, **kw)
    ok, te = None, "TypeError"
    rows = [
        ("(3,) against shape (3,)", (3,), obj(), arr(3), ok),
        ("(3,) against shape (2,)", (3,), obj(), arr(2), te),
        ("(3,) against shape (3, 1): the number of dimensions counts", (3,), obj(), arr(3, 1), te),
        ("(None, 3) against shape (5, 3): None is a wildcard", (None, 3), obj(), arr(5, 3), ok),
        ("(None, 3) against shape (5, 2)", (None, 3), obj(), arr(5, 2), te),
        ("(None, 3) against shape (3,)", (None, 3), obj(), arr(3), te),
        ("(0,) against shape (0,): an expected size of 0 is a size", (0,), obj(), arr(0), ok),
        ("(0,) against shape (2,): an expected size of 0 is a size", (0,), obj(), arr(2), te),
        ("('natom', 3) with natom = 4 against shape (4, 3)", ("natom", 3), obj(natom=4), arr(4, 3), ok),
        ("('natom', 3) with natom = 4 against shape (5, 3)", ("natom", 3), obj(natom=4), arr(5, 3), te),
        ("('natom',) with natom = 0 against shape (2,)", ("natom",), obj(natom=0), arr(2), te),
        ("(('coeffs', 1),) with coeffs of shape (2, 3) against length 3", (("coeffs", 1),), obj(coeffs=arr(2, 3)), arr(3), ok),
        ("(('coeffs', 1),) with coeffs of shape (2, 3) against length 2", (("coeffs", 1),), obj(coeffs=arr(2, 3)), arr(2), te),
        ("(('coeffs', 0), ('kinds', 0)) with coeffs (2, 3), two kinds, against shape (2, 2)", (("coeffs", 0), ("kinds", 0)), obj(coeffs=arr(2, 3), kinds=["c", "p"]), arr(2, 2), ok),
        ("(('coeffs', 0), ('kinds', 0)) with coeffs (2, 3), two kinds, against shape (3, 2)", (("coeffs", 0), ("kinds", 0)), obj(coeffs=arr(2, 3), kinds=["c", "p"]), arr(3, 2), te),
        ("(('coeffs', 1),) while coeffs is not set", (("coeffs", 1),), obj(coeffs=None), arr(3), te),
        ("(('coeffs', 2),) with a two-dimensional coeffs", (("coeffs", 2),), obj(coeffs=arr(2, 3)), arr(3), te),
        ("(3,) against a list of three items", (3,), obj(), [1, 2, 3], ok),
        ("(3,) against a list of two items", (3,), obj(), [1, 2], te),
    ]
    bad = []
    for label, req, o, value, want in rows:
        ev = AccessorEval(prog, None, limit=2000)
        ev.module = vs.module
        local = {req_name: tuple(req), val.posparams[0]: o, val.posparams[1]: Rec(None, name="field"), val.posparams[2]: value}
        try:
            ev._block(val.body, local)
            got = ok
        except Raised as exc:
            got = exc.args[0]
        except NotSymbolic as exc:
            raise AnalysisError(f"validate_shape is outside the evaluation whitelist: {exc}") from exc
        if got != want:
            bad.append(f"{label}: {'accepted' if got is None else 'raises ' + got}, expected {'acceptance' if want is None else want}")
    if bad:
        ctx.violate(rid, f"validate_shape, {bad[0]} ({len(bad)} of {len(rows)} rows of the decision table differ)", val, val.node, construct=f"validate_shape: {bad[0]}"[:170])
    else:
        ctx.ok(rid, f"validate_shape evaluated on {len(rows)} rows (integers incl. 0, None, attribute names, (attribute, axis) pairs, lists): TypeError exactly on a mismatch", f"{val.module.relpath}:{val.lineno}")


def check_message_composition(ctx, rid):
    """The text of a LoadError names the file and, when known, the line: evaluated.

    `_interpret_file_lineno` is evaluated on every kind of `file` argument the library passes (a name, a Path, the
    LineIterator, an open text file, nothing) with and without an explicit line number, `_format_file_message` on the
    three combinations of its arguments, and the constructor / `__str__` of BaseFileError on top of them.  Every rule
    that checks "the error carries the file" relies on this composition."""
    from ..accessors import AccessorEval, ExtObj, Raised, Rec
    from ..symarr import NotSymbolic

    prog = ctx.prog
    um = prog.module("iodata.utils")
    interp = prog.funcs.get("iodata.utils._interpret_file_lineno")
    fmt = prog.funcs.get("iodata.utils._format_file_message")
    base = prog.cls("iodata.utils.BaseFileError")
    licls = prog.cls("iodata.utils.LineIterator")
    if interp is None or fmt is None:
        raise AnalysisError("iodata.utils: _interpret_file_lineno / _format_file_message not found")

    def run(fn, args):
        ev = AccessorEval(prog, licls)
        ev.module = um
        try:
            return ev.run_free(fn, args, {})
        except Raised as exc:
            return ("raises", exc.args[0])
        except NotSymbolic as exc:
            raise AnalysisError(f"{fn.qualname} is outside the evaluation whitelist: {exc}") from exc

    lit = lambda: Rec(licls, filename="FILE", lineno=7, stack=[], fh=None)
    rows = [
        ("a file name", lambda: "FILE", None, ("FILE", None)),
        ("a file name and a line number", lambda: "FILE", 3, ("FILE", 3)),
        ("a Path", lambda: ExtObj("pathlib.Path", text="FILE"), None, ("FILE", None)),
        ("the line iterator", lit, None, ("FILE", 7)),
        ("the line iterator and an explicit line number", lit, 3, ("FILE", 3)),
        ("an open text file", lambda: ExtObj("io.TextIOBase", name="FILE"), None, ("FILE", None)),
        ("nothing", lambda: None, None, (None, None)),
        ("a line number without a file", lambda: None, 3, ("raises", "TypeError")),
    ]
    bad = None
    for label, mk, lineno, want in rows:
        got = run(interp, [mk(), lineno])
        got = tuple(got) if isinstance(got, (tuple, list)) else got
        if got != want:
            bad = f"_interpret_file_lineno given {label}: {got!r}, expected {want!r}"
            break
    if bad is None:
        for args, want in ((["m", None, None], "m"), (["m", "FILE", None], "m (FILE)"), (["m", "FILE", 7], "m (FILE:7)"), (["m", None, 7], "m")):
            got = run(fmt, args)
            if got != want:
                bad = f"_format_file_message{tuple(args)!r} gives {got!r}, expected {want!r}"
                break
    if bad:
        ctx.violate(rid, bad + ": the message of a LoadError no longer names the file / the last line read", interp if "_interpret" in bad else fmt, (interp if "_interpret" in bad else fmt).node, construct=bad[:170])
    else:
        ctx.ok(rid, f"_interpret_file_lineno on {len(rows)} kinds of file argument and _format_file_message on 4 argument combinations give `message (file:line)`", f"{um.relpath}:{interp.lineno}")
    # the exception classes use exactly this composition (evaluated: construct, then render) and no subclass overrides it
    init, strm = base.methods.get("__init__"), base.methods.get("__str__")
    okc = True
    if init is None or strm is None:
        raise AnalysisError("BaseFileError.__init__ / __str__ not found")
    for label, mk, lineno, want in [(r_[0], r_[1], r_[2], r_[3]) for r_ in rows if r_[3][0] != "raises"]:
        ev = AccessorEval(prog, base)
        ev.module = um
        err = Rec(base)
        try:
            ev.run(init, err, dict(zip(init.posparams[1:], ["m", mk(), lineno])))
            got_attrs = (err.fields.get("filename", "<unset>"), err.fields.get("lineno", "<unset>"))
            ev = AccessorEval(prog, base)
            ev.module = um
            text = ev.run(strm, err, {})
        except Raised as exc:
            got_attrs, text = ("raises", exc.args[0]), None
        except NotSymbolic as exc:
            raise AnalysisError(f"BaseFileError is outside the evaluation whitelist: {exc}") from exc
        want_text = "m" if want[0] is None else (f"m ({want[0]})" if want[1] is None else f"m ({want[0]}:{want[1]})")
        if got_attrs != want or text != want_text:
            okc = False
            ctx.violate(rid, f"BaseFileError('m', {label}): attributes (filename, lineno) = {got_attrs!r} and text {text!r}; expected {want!r} and {want_text!r}", relpath=um.relpath, function=base.qualname, node=base.node, construct=f"BaseFileError composition: {label}")
            break
    for ci in prog.classes.values() if hasattr(prog, "classes") else []:
        pass
    subs = [c for c in um.classes.values() if c is not base and any(src_of(b) in ("BaseFileError",) for b in c.node.bases)] if hasattr(um, "classes") else []
    for c in subs:
        if "__str__" in c.methods or "__init__" in c.methods:
            okc = False
            ctx.violate(rid, f"{c.name} overrides {'__str__' if '__str__' in c.methods else '__init__'} of BaseFileError: its messages are composed differently", relpath=um.relpath, function=c.qualname, node=c.node, construct=f"{c.name} overrides composition")
    if okc:
        ctx.ok(rid, f"BaseFileError composes its text from these two functions; {len(subs)} subclasses inherit it unchanged", f"{um.relpath}:{base.node.lineno}")


def check_validator_schema(ctx, rid):
    """Every array field of the data classes is declared with the shape validator its documentation implies
    (frozen in spec/validators.json): the argument tuples of `validate_shape` are literal-evaluated and compared, so a
    loosened axis (`validate_shape(None, None)` for bonds) or a validator dropped from a field is reported."""
    import json
    import os

    prog = ctx.prog
    with open(os.path.join(os.path.dirname(os.path.dirname(os.path.dirname(os.path.abspath(__file__)))), "spec", "validators.json")) as fh:
        spec = json.load(fh)
    n = 0
    for cq, fields in spec.items():
        if cq.startswith("_"):
            continue
        ci = prog.cls(cq)
        decl = {}
        for st in ci.node.body:
            if isinstance(st, ast.AnnAssign) and isinstance(st.target, ast.Name) and st.value is not None:
                calls = [x for x in ast.walk(st.value) if isinstance(x, ast.Call) and isinstance(x.func, ast.Name) and x.func.id == "validate_shape"]
                if calls:
                    try:
                        decl[st.target.id] = ([ast.literal_eval(a) for a in calls[0].args], st)
                    except ValueError as exc:
                        raise AnalysisError(f"{cq}.{st.target.id}: validate_shape arguments are not literals") from exc
        for name, want in fields.items():
            n += 1
            want_t = [tuple(x) if isinstance(x, list) else x for x in want]
            if name not in decl:
                ctx.violate(rid, f"{ci.name}.{name.lstrip('_')} has no shape validator (documented shape {tuple(want_t)}): arrays of any shape are accepted", relpath=ci.module.relpath, function=ci.qualname, node=ci.node, construct=f"{ci.name}.{name}: no validate_shape")
                continue
            got, st = decl[name]
            if got == want_t:
                ctx.ok(rid, f"{ci.name}.{name.lstrip('_')}: validate_shape{tuple(want_t)}", f"{ci.module.relpath}:{st.lineno}", sample=False)
            else:
                ctx.violate(rid, f"{ci.name}.{name.lstrip('_')} is declared with validate_shape{tuple(got)}, the documented shape is {tuple(want_t)}", relpath=ci.module.relpath, function=ci.qualname, node=st, construct=f"{ci.name}.{name}: validate_shape{tuple(got)}")
        for name in sorted(set(decl) - set(fields)):
            ctx.violate(rid, f"{ci.name}.{name} has a shape validator that spec/validators.json does not list (new field: add its documented shape)", relpath=ci.module.relpath, function=ci.qualname, node=decl[name][1], construct=f"{ci.name}.{name}: unlisted validator")
    ctx.floor(rid, n, 20, "validated array fields")


def check_no_swallowing_constructs(ctx, rid):
    """No `return` / `break` / `continue` inside a `finally` block and no `contextlib.suppress` anywhere in the package:
    both discard an exception in flight without any handler saying so (an API decorator written
    `try: ... finally: return result` turns every LoadError into a normal return of None)."""
    prog = ctx.prog
    n = 0
    for f in prog.package_funcs():
        for t in [x for x in f.own_nodes() if isinstance(x, ast.Try) and x.finalbody]:
            n += 1
            for st in t.finalbody:
                for x in ast.walk(st):
                    if isinstance(x, ast.Return) or (isinstance(x, (ast.Break, ast.Continue)) and not any(isinstance(p_, (ast.For, ast.While)) and any(y is x for y in ast.walk(p_)) for p_ in ast.walk(st) if p_ is not x)):
                        ctx.violate(rid, f"{f.name}: `{type(x).__name__.lower()}` inside a `finally` block discards any exception in flight: a failure turns into a normal result", f, x)
        for cs in f.calls:
            if cs.external in ("contextlib.suppress",):
                ctx.violate(rid, f"{f.name} uses contextlib.suppress: exceptions are dropped silently", f, cs.node)
    ctx.ok(rid, f"no return / break / continue in any of the {n} `finally` blocks of the package; no contextlib.suppress", "iodata")


def check_lineiterator_lifo(ctx, rid):
    """LineIterator evaluated: lines put back come out again last-in-first-out before anything new is read, and the
    line counter goes down and up with them."""
    from ..accessors import AccessorEval, Raised, Rec
    from ..symarr import NotSymbolic

    prog = ctx.prog
    licls = prog.cls("iodata.utils.LineIterator")
    lit = Rec(licls, filename="F", fh=iter(["1\n", "2\n", "3\n"]), lineno=0, stack=[])
    ev = AccessorEval(prog, licls, limit=2000)
    try:
        a = ev.call_method(lit, "__next__", [], {})
        b = ev.call_method(lit, "__next__", [], {})
        n2 = lit.fields["lineno"]
        ev.call_method(lit, "back", [b], {})
        ev.call_method(lit, "back", [a], {})
        n0 = lit.fields["lineno"]
        seq = [ev.call_method(lit, "__next__", [], {}) for _ in range(3)]
        n3 = lit.fields["lineno"]
        try:
            ev.call_method(lit, "__next__", [], {})
            end = "returns"
        except Raised as exc:
            end = exc.args[0]
    except Raised as exc:
        ctx.violate(rid, f"LineIterator raises {exc.args[0]} in a next / back sequence on three lines", relpath=licls.module.relpath, function=licls.qualname, node=licls.node, construct="LineIterator sequence raises")
        return
    except NotSymbolic as exc:
        raise AnalysisError(f"LineIterator is outside the evaluation whitelist: {exc}") from exc
    bad = None
    if (a, b) != ("1\n", "2\n") or n2 != 2:
        bad = f"two reads give {(a, b)!r} with line counter {n2}"
    elif n0 != 0:
        bad = f"after putting both lines back the line counter is {n0}, expected 0"
    elif seq != ["1\n", "2\n", "3\n"]:
        bad = f"after back(second), back(first) the lines come out as {seq!r}: pushed-back lines must come first, in their original order"
    elif n3 != 3:
        bad = f"after re-reading three lines the line counter is {n3}"
    elif end != "StopIteration":
        bad = f"at the end of the input __next__ {end} instead of raising StopIteration"
    g = licls.methods.get("__next__")
    if bad:
        ctx.violate(rid, f"LineIterator: {bad}", g, g.node, construct=f"LineIterator LIFO: {bad}"[:150])
    else:
        ctx.ok(rid, "LineIterator evaluated on three lines: push-backs come out last-in-first-out before new lines; the line counter follows", g.where)
