"""C20 -- numerical helpers: structural clauses (table algebra + guard shapes)."""

from __future__ import annotations

import ast
from itertools import product

import numpy as np

from .. import AnalysisError
from ..astutil import deref, names_in, raises_class, straightline_def, walk_stmts
from ..consteval import ConstEval, NotConstant
from ..model import src_of

PROP = "C20"
LEVEL = "other"
TECHNIQUE = "static analysis: table algebra on constants evaluated from the AST + guard-shape rules on the helper functions"
EXPLANATION = (
    "Static decision of the shape-visible clauses of C20: (R1) the index tuples assigned by "
    "set_four_index_element are exactly the 8-element orbit of (i,j,k,l) under the physicists'-notation "
    "symmetry group, all unconditional, same array, same value; (R2) STRTOBOOL, evaluated from the AST, "
    "equals the documented vocabulary, the lookup key is value.lower() and a miss raises ValueError; "
    "(R3) volume(), evaluated on symbolic cell vectors (shapes (3,), (1,3), (2,3), (3,3)), returns the "
    "non-negative root of the Gram determinant det(A A^T) (norm / |cross| / |det| / sqrt|det G| all reduce to it "
    "as polynomials in the components), and raises ValueError for zero or four vectors; "
    "(R4) check_dm tests both bounds with the eps/occ_max parameters and each raises ValueError; (R5) "
    "derive_naturals passes the overlap as the metric of scipy.linalg.eigh and returns (vectors, values). "
    "Declined: orthonormality, reconstruction of the density matrix, eigenvalue accuracy and volume values "
    "(numerical results)."
)
TECHNIQUE += '; symbolic evaluation of volume() (polynomial identity with the Gram determinant)'
EXPLANATION += ' R3 thereby implies rotation invariance and independence of the order / handedness of the vectors; the numerical value is not computed.'
EXPLANATION += " R5 also rejects overwrite_a/overwrite_b=True on the caller's matrices and accepts the transposed (symmetric) overlap as metric."
TECHNIQUE += '; evaluation of set_four_index_element and check_dm'
EXPLANATION += ' R1 evaluates set_four_index_element for all 256 index tuples of a 4x4x4x4 symbolic array (exactly the symmetry orbit is written); R4 evaluates check_dm with stubbed natural occupations on 120 (eps, occ_max, min, max) combinations around both bounds.'
# --- metadata added for batch 7
TECHNIQUE += '; representative-case evaluation where the routine branches on its data'
EXPLANATION += ' R1 evaluates set_four_index_element on an array with earlier content and with a symbolic and a zero value (an early return on zero leaves the old content). R3: when volume() branches on its data (a shortcut for orthogonal cells) the symbolic case decides generic cells only, so integer cells of every orthogonality pattern, in both orientations, are evaluated against the exact Gram determinant.'
# --- end metadata batch 7
# --- metadata added for batch 8
EXPLANATION += ' R1 also on a Fortran-ordered array and a transposed view (a write through a flat copy is lost); R5 also with an overlap matrix of integer dtype (eigenvectors filled into an array created like it are truncated).'
# --- end metadata batch 8
# --- metadata added for batch 9
EXPLANATION += ' R2 is decided by evaluation alone when the vocabulary is not a constant table (seventeen foreign strings, among them words that only begin with a vocabulary word). R3 also: nearly and exactly dependent pairs of vectors (accuracy 1e-6, no nan).'
# --- end metadata batch 9
TRUSTED = ["CPython ast parser", "scipy.linalg.eigh(a, b) solves a v = w b v and returns (w, v)", "np.linalg.norm and abs are non-negative"]

DOC_TRUE = {"y", "yes", "t", "true", "on", "1"}
DOC_FALSE = {"n", "no", "f", "false", "off", "0"}
ABS_FUNCS = {"builtins.abs", "numpy.abs", "numpy.absolute", "numpy.fabs", "numpy.linalg.norm", "math.fabs"}


def _orbit():
    gens = [lambda t: (t[2], t[1], t[0], t[3]), lambda t: (t[0], t[3], t[2], t[1]), lambda t: (t[1], t[0], t[3], t[2])]
    seen = {(0, 1, 2, 3)}
    todo = [(0, 1, 2, 3)]
    while todo:
        t = todo.pop()
        for g in gens:
            u = g(t)
            if u not in seen:
                seen.add(u)
                todo.append(u)
    return seen


def _root_form(v):
    """A value as (P, k): the non-negative k-th root of the polynomial P; k = 1 means the signed polynomial itself."""
    from ..symarr import OPAQUE_ARGS, Sym

    v = Sym.const(v)
    if len(v.terms) == 1:
        (mono, coef), = v.terms.items()
        if coef == 1 and len(mono) == 1 and mono[0][1] == 1 and mono[0][0] in OPAQUE_ARGS:
            fname, arg = OPAQUE_ARGS[mono[0][0]]
            p, k = _root_form(arg)
            if fname == "sqrt":
                return p, 2 * k
            if fname == "abs":
                return (p * p, 2) if k == 1 else (p, k)
            return None
    for mono in v.terms:
        for name, _ in mono:
            if name in OPAQUE_ARGS:
                return None  # a mixed expression of roots: not decided here
    return v, 1


#: integer cell vectors, one per zero pattern of the pairwise dot products (d01, d02, d12), with integer Gram
#: determinants that are perfect squares; each is also used with two rows swapped (left-handed) and negated
_VOLUME_REPRESENTATIVES = {
    (3,): [[3, 4, 12]],
    (1, 3): [[[3, 4, 12]]],
    (2, 3): [
        [[2, 0, 0], [0, 3, 0]],  # orthogonal
        [[3, 0, 0], [4, 5, 0]],  # not orthogonal
        [[1, 2, 2], [2, 1, -2]],  # orthogonal, not axis-aligned
    ],
    (3, 3): [
        [[2, 0, 0], [0, 3, 0], [0, 0, 5]],  # 000
        [[2, 0, 0], [1, 3, 0], [0, 0, 5]],  # d01
        [[2, 0, 0], [0, 3, 0], [1, 0, 5]],  # d02
        [[2, 0, 0], [0, 3, 0], [0, 1, 5]],  # d12
        [[2, 0, 0], [1, 3, 0], [1, 0, 5]],  # d01 d02 (d12 = 1: all three) -> see next rows
        [[1, 1, 0], [1, -1, 1], [0, 0, 4]],  # d12 only, rotated
        [[2, 0, 0], [1, 3, 0], [1, 1, 5]],  # all three
        [[1, 2, 2], [2, 1, -2], [2, -2, 1]],  # orthogonal, rotated (volume 27)
    ],
}


def _check_volume_cases(ctx, vf, label, shape):
    from fractions import Fraction
    from math import isqrt

    from ..accessors import AccessorEval, Raised
    from ..symarr import NotSymbolic

    def exact_gram_det(rows):
        n = len(rows)
        g = [[Fraction(sum(x * y for x, y in zip(rows[i], rows[j]))) for j in range(n)] for i in range(n)]
        if n == 1:
            return g[0][0]
        if n == 2:
            return g[0][0] * g[1][1] - g[0][1] * g[1][0]
        return (g[0][0] * (g[1][1] * g[2][2] - g[1][2] * g[2][1]) - g[0][1] * (g[1][0] * g[2][2] - g[1][2] * g[2][0])
                + g[0][2] * (g[1][0] * g[2][1] - g[1][1] * g[2][0]))

    ncase = 0
    for base in _VOLUME_REPRESENTATIVES[shape]:
        variants = [("as listed", base)]
        if len(shape) == 2 and shape[0] >= 2:
            variants.append(("rows swapped", [base[1], base[0], *base[2:]]))
            variants.append(("last row negated", [*base[:-1], [-x for x in base[-1]]]))
        for vname, cell in variants:
            rows = cell if isinstance(cell[0], list) else [cell]
            det = exact_gram_det(rows)
            want = isqrt(int(det))
            if want * want != det:
                raise AnalysisError(f"C20-R3 representative {cell} has a Gram determinant that is not a perfect square")
            try:
                val = AccessorEval(ctx.prog, None).run_free(vf, [np.array(cell, dtype=float)], {})
            except Raised as exc:
                ctx.violate("R3", f"volume() of {label} {cell} ({vname}) raises {exc.args[0]}", vf, vf.node, construct=f"volume {label}: raises")
                return
            except NotSymbolic as exc:
                raise AnalysisError(f"volume() is outside the evaluation whitelist on numbers: {exc}") from exc
            try:
                got = float(val.item() if isinstance(val, np.ndarray) else val)
            except (TypeError, ValueError) as exc:
                got = _numeric_value(val)
            ncase += 1
            if not abs(got - want) <= 1e-9 * max(1.0, want):
                kind = "negative" if got < 0 else "wrong"
                ctx.violate("R3", f"volume() of the cell vectors {cell} ({vname}) is {got:.6g}; the Gram determinant det(A A^T) = {det} gives {want}", vf, vf.node, construct=f"volume {label}: {kind} for a representative cell")
                return
    ctx.ok("R3", f"{label}: the routine branches on the data; {ncase} representative cells (every orthogonality pattern, both orientations) give the root of the Gram determinant", vf.where)


def _numeric_value(val):
    """Numeric value of a Sym made of constants and sqrt/abs atoms of constants."""
    from ..symarr import OPAQUE_ARGS, Sym

    v = Sym.const(val)
    total = 0.0
    for mono, coef in v.terms.items():
        term = float(coef)
        for name, k in mono:
            if name not in OPAQUE_ARGS:
                raise AnalysisError(f"volume() returns the non-numeric value `{val!r}` on numbers")
            fname, arg = OPAQUE_ARGS[name]
            x = _numeric_value(arg)
            x = {"sqrt": lambda t: t ** 0.5, "abs": abs}.get(fname, None)(x) if fname in ("sqrt", "abs") else None
            if x is None:
                raise AnalysisError(f"volume() returns `{val!r}` on numbers")
            term *= x ** k
        total += term
    return total


def _check_strtobool_table(ctx, prog, um, sb, table):
    """The vocabulary as a constant table and the shape of the lookup (when the routine is written that way)."""
    for w in sorted(DOC_TRUE | DOC_FALSE):
        exp = w in DOC_TRUE
        if w not in table:
            ctx.violate("R2", f"documented word '{w}' is missing from STRTOBOOL", relpath=um.relpath, function="iodata.utils.STRTOBOOL", construct=f"missing {w!r}")
        elif table[w] is not exp:
            ctx.violate("R2", f"word '{w}' maps to {table[w]!r}, documented {exp}", relpath=um.relpath, function="iodata.utils.STRTOBOOL", construct=f"{w!r}: {table[w]!r}")
        else:
            ctx.ok("R2", f"'{w}' -> {exp}", um.relpath)
    for w in sorted(set(table) - DOC_TRUE - DOC_FALSE, key=repr):
        ctx.violate("R2", f"undocumented word {w!r} accepted by STRTOBOOL", relpath=um.relpath, function="iodata.utils.STRTOBOOL", construct=f"extra {w!r}")
    # lookup shape
    p0 = sb.posparams[0]
    lookups = []
    for n in sb.own_nodes():
        key = None
        if isinstance(n, ast.Call) and isinstance(n.func, ast.Attribute) and n.func.attr == "get" and isinstance(n.func.value, ast.Name) and n.func.value.id == "STRTOBOOL":
            key = n.args[0] if n.args else None
            if len(n.args) > 1 and not (isinstance(n.args[1], ast.Constant) and n.args[1].value is None):
                ctx.violate("R2", "STRTOBOOL.get has a non-None default (a miss no longer raises)", sb, n)
        elif isinstance(n, ast.Subscript) and isinstance(n.value, ast.Name) and n.value.id == "STRTOBOOL":
            key = n.slice
        if key is not None:
            lookups.append((n, key))
    if len(lookups) != 1:
        ctx.violate("R2", f"expected exactly one STRTOBOOL lookup in strtobool, found {len(lookups)}", sb, sb.node, construct="lookups")
    for n, key in lookups:
        k = deref(sb, key)
        good = isinstance(k, ast.Call) and isinstance(k.func, ast.Attribute) and k.func.attr == "lower" and isinstance(k.func.value, ast.Name) and k.func.value.id == p0 and not k.args
        if good:
            ctx.ok("R2", "lookup key is value.lower()", sb.where)
        else:
            ctx.violate("R2", f"lookup key is `{src_of(k)}`, not `{p0}.lower()` (accepts other/fewer strings than documented)", sb, n)
    raises = [s for s in walk_stmts(sb.body) if isinstance(s, ast.Raise)]
    if any(raises_class(r) == "ValueError" for r in raises):
        ctx.ok("R2", "a miss raises ValueError", sb.where)
    else:
        ctx.violate("R2", "strtobool never raises ValueError", sb, sb.node, construct="no raise ValueError")
    for n in sb.own_nodes():
        if isinstance(n, ast.Return) and isinstance(n.value, ast.Constant):
            ctx.violate("R2", "strtobool returns a constant (default answer for unknown words)", sb, n)
        if isinstance(n, ast.Try):
            for h in n.handlers:
                if not any(isinstance(s, ast.Raise) for s in walk_stmts(h.body)):
                    ctx.violate("R2", "exception handler in strtobool that does not re-raise", sb, h)



def _check_volume_conditioning(ctx, vf):
    """Nearly and exactly dependent pairs of vectors: the area is small or zero, never nan, and accurate.  A formula
    that is algebraically the root of the Gram determinant but subtracts large squares (|a|^2 |b|^2 - (a.b)^2) passes
    the symbolic comparison and loses every digit here."""
    from ..accessors import AccessorEval, Raised
    from ..symarr import NotSymbolic

    for cell, want in (([[5.0, 0.0, 0.0], [5.0, 1e-7, 0.0]], 5e-7), ([[1.0, 0.0, 0.0], [1.0, 1e-9, 0.0]], 1e-9), ([[0.3, 0.6, 0.9], [0.1, 0.2, 0.3]], 0.0)):
        try:
            val = AccessorEval(ctx.prog, None).run_free(vf, [np.array(cell, dtype=float)], {})
            try:
                got = float(val.item() if isinstance(val, np.ndarray) else val)
            except (TypeError, ValueError):
                got = _numeric_value(val)
        except Raised as exc:
            ctx.violate("R3", f"volume() of the two vectors {cell} raises {exc.args[0]}", vf, vf.node, construct="volume two vectors: raises")
            return
        except NotSymbolic as exc:
            raise AnalysisError(f"volume() is outside the evaluation whitelist on numbers: {exc}") from exc
        if not (got == got) or abs(got - want) > max(1e-6 * want, 1e-12):
            ctx.violate("R3", f"volume() of the nearly dependent vectors {cell} is {got!r}; the area is {want:g} (a formula that subtracts large squares loses all digits, or gives nan)", vf, vf.node, construct="volume two vectors: nearly dependent vectors")
            return
    ctx.ok("R3", "two nearly dependent and one exactly dependent pair of vectors: the area is accurate to 1e-6 (no cancellation, no nan)", vf.where)


def _check_volume(ctx):
    """R3 by evaluation: volume() on symbolic cell vectors (one, two, three rows) returns the non-negative root of
    the Gram determinant det(A A^T) -- length, area, volume; orientation- and rotation-independent by construction --
    and rejects every other shape with ValueError."""
    from ..accessors import AccessorEval, Raised
    from ..symarr import NotSymbolic, Sym, SymbolicBranch, _det, sym_array

    prog = ctx.prog
    vf = prog.func("iodata.utils.volume")
    _check_volume_conditioning(ctx, vf)
    cases = [("one vector, shape (3,)", (3,)), ("one vector, shape (1, 3)", (1, 3)), ("two vectors", (2, 3)), ("three vectors", (3, 3))]
    for label, shape in cases:
        a = sym_array("a", shape)
        rows = a.reshape(-1, 3)
        gram = _det(np.dot(rows, rows.T))
        ev = AccessorEval(prog, None)
        try:
            val = ev.run_free(vf, [a], {})
            if ev.generic_branches:
                # decided for generic cells only: the special cells the routine tests for are decided below
                _check_volume_cases(ctx, vf, label, shape)
        except Raised as exc:
            ctx.violate("R3", f"volume() of {label} raises {exc.args[0]}", vf, vf.node, construct=f"volume {label}: raises")
            continue
        except SymbolicBranch:
            # the routine chooses its formula from the data: decide each representative of the finite set of
            # zero patterns of the Gram matrix (which pairs of vectors are orthogonal), in both orientations
            _check_volume_cases(ctx, vf, label, shape)
            continue
        except NotSymbolic as exc:
            raise AnalysisError(f"volume() is outside the evaluation whitelist: {exc}") from exc
        form = None if isinstance(val, np.ndarray) and val.size != 1 else _root_form(val.item() if isinstance(val, np.ndarray) else val)
        if form is None:
            raise AnalysisError(f"volume() of {label} returns `{val!r}`, which is not a root of a polynomial in the cell-vector components")
        p, k = form
        if k == 1:
            ctx.violate("R3", f"volume() of {label} returns the signed quantity `{p!r}`: a left-handed or permuted cell gives a negative volume", vf, vf.node, construct=f"volume {label}: signed")
            continue
        want = gram
        for _ in range(k // 2 - 1):
            want = want * gram
        if k in (2, 4) and p == want:
            ctx.ok("R3", f"{label}: the result is the non-negative root of the Gram determinant det(A A^T)", vf.where)
        else:
            ctx.violate("R3", f"volume() of {label} is the {k}-th root of `{str(p)[:80]}`, which is not the Gram determinant det(A A^T) of the cell vectors (the length / area / volume they span)", vf, vf.node, construct=f"volume {label}: not the Gram determinant")
    for label, shape in [("four vectors", (4, 3)), ("no vector", (0, 3))]:
        try:
            val = AccessorEval(prog, None).run_free(vf, [sym_array("a", shape)], {})
        except Raised as exc:
            if exc.args[0] == "ValueError":
                ctx.ok("R3", f"{label}: ValueError", vf.where)
            else:
                ctx.violate("R3", f"volume() of {label} raises {exc.args[0]}, documented ValueError", vf, vf.node, construct=f"volume {label}: {exc.args[0]}")
            continue
        except NotSymbolic as exc:
            raise AnalysisError(f"volume() is outside the evaluation whitelist: {exc}") from exc
        ctx.violate("R3", f"volume() of {label} returns a value instead of raising ValueError", vf, vf.node, construct=f"volume {label}: no error")


def run(ctx):
    prog = ctx.prog
    ce = ConstEval(prog)
    ctx.clauses_decided = ["R1 eight-fold symmetry", "R2 boolean vocabulary", "R3 volume non-negative", "R4 check_dm two-sided", "R5 generalized eigenproblem wiring"]
    ctx.clauses_declined = ["orthonormality / reconstruction / eigenvalue accuracy (numerical)", "floating-point accuracy of volume() (numerical)"]

    # ------------------------------------------------------------------ R1
    ctx.rule("R1", "set_four_index_element fills exactly the 8 symmetry-equivalent positions", "a missing/duplicated/wrong index tuple leaves a symmetry-equivalent element unset or overwrites an unrelated one")
    _check_four_index(ctx)

    # ------------------------------------------------------------------ R2
    ctx.rule("R2", "string-to-boolean vocabulary", "a missing/extra word changes which strings are accepted")
    um = prog.module("iodata.utils")
    sb = prog.func("iodata.utils.strtobool")
    table_ok = True
    try:
        table = ce.global_value(um, "STRTOBOOL")
    except (NotConstant, AnalysisError):
        table_ok = False  # the vocabulary is not kept in a constant table: the evaluation below decides alone
    if table_ok and isinstance(table, dict):
        _check_strtobool_table(ctx, prog, um, sb, table)
    # the function itself, evaluated: every documented word in three letter cases, and foreign strings
    from ..accessors import AccessorEval as _AE, Raised as _Raised
    from ..symarr import NotSymbolic as _NS

    badw = None
    nw = 0
    try:
        for w in sorted(DOC_TRUE | DOC_FALSE):
            for spelled in (w, w.upper(), w.title(), w[:1].lower() + w[1:].upper()):
                nw += 1
                try:
                    got = _AE(prog, None).run_free(sb, [spelled], {})
                except _Raised as exc:
                    got = f"raises {exc.args[0]}"
                if got is not (w in DOC_TRUE):
                    badw = badw or f"strtobool({spelled!r}) gives {got!r}, documented {w in DOC_TRUE}"
        for foreign in ("maybe", "", "2", "tru", "yellow", "tight", "none", "offset", "10", "yes!", "true ", " on", "nope", "falsey", "f1", "00", "y es"):
            nw += 1
            try:
                got = _AE(prog, None).run_free(sb, [foreign], {})
                badw = badw or f"strtobool({foreign!r}) returns {got!r} instead of raising ValueError"
            except _Raised as exc:
                if exc.args[0] != "ValueError":
                    badw = badw or f"strtobool({foreign!r}) raises {exc.args[0]}, documented ValueError"
    except _NS as exc:
        raise AnalysisError(f"strtobool is outside the evaluation whitelist: {exc}") from exc
    if badw:
        ctx.violate("R2", badw, sb, sb.node, construct=badw[:160])
    else:
        ctx.ok("R2", f"strtobool evaluated on {nw} strings (every documented word in four letter cases, seventeen foreign strings (words that only begin with, end with or contain a vocabulary word)): documented value or ValueError", sb.where)

    # ------------------------------------------------------------------ R3
    ctx.rule("R3", "volume() returns a non-negative quantity", "a left-handed or permuted cell gives a negative volume")
    _check_volume(ctx)

    # ------------------------------------------------------------------ R4
    ctx.rule("R4", "check_dm rejects occupations below -eps or above occ_max + eps, and nothing else", "an unphysical density matrix passes, or a valid one is rejected, at another threshold than requested")
    _check_check_dm(ctx)
    cd = prog.func("iodata.utils.check_dm")
    dn = prog.func("iodata.utils.derive_naturals")

    # ------------------------------------------------------------------ R5
    ctx.rule("R5", "derive_naturals solves the generalized eigenproblem with the overlap as metric", "eigh without the metric returns orbitals that are not S-orthonormal")
    ecalls = [cs for cs in dn.calls if cs.external == "scipy.linalg.eigh"]
    if len(ecalls) != 1:
        ctx.violate("R5", f"expected one scipy.linalg.eigh call, found {len(ecalls)}", dn, dn.node, construct="eigh call")
    for cs in ecalls:
        args = cs.node.args
        kws = {k.arg: k.value for k in cs.node.keywords}
        metric = args[1] if len(args) > 1 else kws.get("b")
        ov = dn.posparams[1]
        mt = metric
        while isinstance(mt, ast.Attribute) and mt.attr == "T":
            mt = mt.value  # the overlap is symmetric: its transpose is the same metric
        if isinstance(mt, ast.Call) and src_of(mt.func) in ("np.array", "np.asarray", "np.copy") and mt.args:
            mt = mt.args[0]
        if isinstance(mt, ast.Name) and mt.id == ov:
            ctx.ok("R5", "eigh(sds, overlap): overlap is the metric", f"{dn.module.relpath}:{cs.node.lineno}")
        else:
            ctx.violate("R5", "the overlap matrix is not passed as second (metric) argument of eigh", dn, cs.node)
        # eigh must not be allowed to destroy the caller's matrices
        for flag, pos in (("overwrite_a", 0), ("overwrite_b", 1)):
            v = kws.get(flag)
            if v is not None and not (isinstance(v, ast.Constant) and v.value is False):
                opnd = args[pos] if len(args) > pos else kws.get("ab"[pos])
                root = opnd
                while isinstance(root, ast.Attribute) and root.attr == "T":
                    root = root.value
                if isinstance(root, ast.Name) and root.id in dn.params:
                    ctx.violate("R5", f"eigh is called with {flag}=True on the caller's `{root.id}`: LAPACK may overwrite it in place (the overlap the caller keeps is then no longer the metric of the returned orbitals, and a second call gives other occupations)", dn, cs.node, construct=f"eigh {flag} on parameter {root.id}")
        bad = [k for k in kws if k in ("type", "eigvals_only", "subset_by_index", "subset_by_value", "lower") and not (k == "type" and isinstance(kws[k], ast.Constant) and kws[k].value == 1)]
        if bad:
            ctx.violate("R5", f"eigh called with options {bad} that change the problem solved", dn, cs.node)
        # which matrix is diagonalised, and how the results are paired and returned, is decided by evaluation below
    _check_naturals_evaluated(ctx)

def _has_call(node, attrs):
    for n in ast.walk(node):
        if isinstance(n, ast.Call):
            f = n.func
            if isinstance(f, ast.Attribute) and f.attr in attrs:
                return True
            if isinstance(f, ast.Name) and f.id in attrs:
                return True
    return False


def _deep_names(func, expr, depth=4):
    out = set()
    todo = [(expr, depth)]
    while todo:
        e, d = todo.pop()
        for nm in names_in(e):
            if nm in out:
                continue
            out.add(nm)
            if d > 0 and nm in func.locals and nm not in func.params:
                dd = deref(func, ast.Name(id=nm, ctx=ast.Load()))
                if not isinstance(dd, ast.Name):
                    todo.append((dd, d - 1))
    return out


def _check_four_index(ctx):
    """set_four_index_element evaluated for all 256 index tuples of a 4x4x4x4 symbolic array."""
    import itertools

    import numpy as np

    from ..accessors import AccessorEval, Raised
    from ..symarr import NotSymbolic, Sym

    prog = ctx.prog
    f = prog.func("iodata.utils.set_four_index_element")
    bad = None
    n = 0
    try:
        from ..symarr import sym_array

        before = sym_array("old", (4, 4, 4, 4))
        # the array may hold anything beforehand (a second record for the same element overwrites the first), and
        # the value may be any number, zero included
        for idx, (vname, v) in itertools.product(itertools.product(range(4), repeat=4), [("v", Sym.atom("v")), ("0.0", 0.0)]):
            arr = before.copy()
            ev = AccessorEval(prog, None)
            ev.module = f.module
            try:
                ev.run_free(f, [arr] + list(idx) + [v], {})
            except Raised as exc:
                bad = bad or (idx, vname, f"raises {exc.cls}")
                continue
            got = {tuple(int(x) for x in pos) for pos in np.ndindex(4, 4, 4, 4) if not (Sym.const(arr[pos]) == before[pos])}
            wrong = [pos for pos in got if not (Sym.const(arr[pos]) == Sym.const(v))]
            i, j, k, l = idx
            want = {(i, j, k, l), (j, i, l, k), (k, l, i, j), (l, k, j, i), (k, j, i, l), (l, i, j, k), (i, l, k, j), (j, k, l, i)}
            n += 1
            if got != want or wrong:
                what = f"stores something else than the value at {sorted(wrong)}" if wrong else (
                    f"sets {sorted(got - want) or 'nothing extra'} beyond the orbit and leaves {sorted(want - got) or 'nothing'} of it at the old content")
                bad = bad or (idx, vname, what)
        # the array the caller hands in need not be C-contiguous: a Fortran-ordered array and a transposed view
        # (a flat view of such an array is a copy: writes through it are lost)
        for lname, make in (("Fortran-ordered", lambda: np.asfortranarray(before.copy())), ("a transposed view", lambda: before.copy().transpose(3, 1, 2, 0))):
            for idx in [(0, 1, 2, 3), (1, 1, 2, 0), (3, 0, 0, 2), (2, 2, 2, 2)]:
                arr = make()
                ref = arr.copy()
                ev = AccessorEval(prog, None)
                ev.module = f.module
                v = Sym.atom("v")
                try:
                    ev.run_free(f, [arr] + list(idx) + [v], {})
                except Raised as exc:
                    bad = bad or (idx, f"v ({lname} array)", f"raises {exc.cls}")
                    continue
                got = {tuple(int(x) for x in pos) for pos in np.ndindex(4, 4, 4, 4) if not (Sym.const(arr[pos]) == ref[pos])}
                i, j, k, l = idx
                want = {(i, j, k, l), (j, i, l, k), (k, l, i, j), (l, k, j, i), (k, j, i, l), (l, i, j, k), (i, l, k, j), (j, k, l, i)}
                n += 1
                if got != want or any(not (Sym.const(arr[pos]) == v) for pos in got):
                    bad = bad or (idx, f"v ({lname} array)", f"changes {sorted(got)[:3]}{'...' if len(got) > 3 else ''} ({len(got)} positions) instead of the eight positions of the orbit: the caller's array is not (fully) written")
    except NotSymbolic as exc:
        raise AnalysisError(f"set_four_index_element is outside the evaluation whitelist: {exc}") from exc
    if bad:
        ctx.violate("R1", f"set_four_index_element(array, {', '.join(map(str, bad[0]))}, {bad[1]}) on an array with earlier content {bad[2]}; the physicists'-notation symmetry orbit has exactly the positions (ijkl),(jilk),(klij),(lkji),(kjil),(lijk),(ilkj),(jkli)", f, f.node, construct=f"four-index {bad[0]} value {bad[1]}: {bad[2]}"[:200])
    else:
        ctx.ok("R1", f"all {n} (index tuple, value) cases of a 4x4x4x4 symbolic array with earlier content, value symbolic or zero: exactly the symmetry orbit of (i,j,k,l) receives the value, nothing else is touched", f"{f.module.relpath}:{f.lineno}")


def _check_check_dm(ctx):
    """check_dm evaluated with stubbed natural occupations over a finite domain around both bounds."""
    import numpy as np

    from ..accessors import AccessorEval, Raised
    from ..symarr import NotSymbolic

    prog = ctx.prog
    cd = prog.func("iodata.utils.check_dm")
    dn = prog.func("iodata.utils.derive_naturals")
    cases = []
    for eps, occ_max in ((1e-4, 1.0), (1e-4, 2.0), (1e-2, 0.5), (1e-6, 2.0)):
        for lo in (-3 * eps, -1.5 * eps, -0.5 * eps, 0.0, 0.3):
            for hi in (occ_max - 0.1, occ_max, occ_max + 0.5 * eps, occ_max + 1.5 * eps, occ_max + 3 * eps, occ_max * (1 + 1.5 * eps) if occ_max != 1.0 else occ_max + 0.5 * eps):
                cases.append((eps, occ_max, lo, hi))
    # occupations exactly on the bounds are accepted (the inequalities are strict)
    for eps, occ_max in ((1e-4, 1.0), (0.25, 2.0)):
        cases.append((eps, occ_max, -eps, occ_max + eps))
    # documented defaults (eps = 1e-4, occ_max = 1): the same decisions without keyword arguments
    for lo, hi in ((-3e-4, 0.5), (-0.5e-4, 1.0 + 0.5e-4), (0.0, 1.0 + 3e-4), (0.0, 1.9)):
        cases.append((None, None, lo, hi))
    bad = None
    calls = []
    try:
        for eps, occ_max, lo, hi in cases:
            defaults = eps is None
            if defaults:
                eps, occ_max = 1e-4, 1.0
            occ = np.array([lo, 0.5 * occ_max, hi])

            def stub(args, kw, occ=occ):
                calls.append((args, kw))
                return ("<coefficients>", occ)

            ev = AccessorEval(prog, None)
            ev.module = cd.module
            ev.stubs = {dn.qualname: stub}
            dm, ov = ("dm",), ("overlap",)
            try:
                ev.run_free(cd, [dm, ov], {} if defaults else {"eps": eps, "occ_max": occ_max})
                got = "accepted"
            except Raised as exc:
                got = exc.cls
            want = "ValueError" if (lo < -eps or hi > occ_max + eps) else "accepted"
            a, k = calls[-1] if calls else ((), {})
            passed = (len(a) >= 2 and a[0] is dm and a[1] is ov) or (k.get("dm") is dm and k.get("overlap") is ov)
            if got != want:
                bad = bad or (eps, occ_max, lo, hi, got, want)
            elif not passed:
                bad = bad or (eps, occ_max, lo, hi, "derive_naturals is not called with (dm, overlap)", "")
    except NotSymbolic as exc:
        raise AnalysisError(f"check_dm is outside the evaluation whitelist: {exc}") from exc
    if bad:
        eps, occ_max, lo, hi, got, want = bad
        ctx.violate("R4", f"check_dm(eps={eps}, occ_max={occ_max}) with natural occupations between {lo:g} and {hi:g}: {got}" + (f", expected {want} (reject exactly when min < -eps or max > occ_max + eps)" if want else ""), cd, cd.node, construct=f"check_dm eps={eps} occ_max={occ_max} lo={lo:g} hi={hi:g}: {got}")
    else:
        ctx.ok("R4", f"check_dm evaluated on {len(cases)} (eps, occ_max, smallest, largest occupation) combinations around both bounds: ValueError exactly when min < -eps or max > occ_max + eps; the occupations are those of derive_naturals(dm, overlap)", f"{cd.module.relpath}:{cd.lineno}")


def _check_naturals_evaluated(ctx):
    """derive_naturals with `eigh` stubbed, on symbolic symmetric 2x2 D and S: the matrix handed to the solver is
    S D S, the metric is S, and column k of the returned coefficients belongs to the k-th returned occupation (same
    position in the solver's output, whatever common re-ordering is applied to both)."""
    from ..accessors import AccessorEval, Raised
    from ..symarr import NotSymbolic, Sym, first_difference, sym_array

    prog = ctx.prog
    dn = prog.func("iodata.utils.derive_naturals")
    d = sym_array("d", (2, 2))
    s = sym_array("s", (2, 2))
    d[1, 0] = d[0, 1]
    s[1, 0] = s[0, 1]
    seen = {}
    evals = np.array([Sym.atom("n0"), Sym.atom("n1")], dtype=object)
    evecs = np.array([[Sym.atom("v00"), Sym.atom("v01")], [Sym.atom("v10"), Sym.atom("v11")]], dtype=object)

    def eigh(args, kw):
        seen["args"], seen["kw"] = args, kw
        return (evals, evecs)

    ev = AccessorEval(prog, None, limit=2000)
    ev.module = dn.module
    ev.ext_stubs = {"scipy.linalg.eigh": eigh}
    try:
        res = ev.run_free(dn, [d, s], {})
    except Raised as exc:
        ctx.violate("R5", f"derive_naturals raises {exc.args[0]} on 2x2 matrices", dn, dn.node, construct="derive_naturals raises")
        return
    except NotSymbolic as exc:
        raise AnalysisError(f"derive_naturals is outside the evaluation whitelist: {exc}") from exc
    if "args" not in seen:
        return  # the structural part of R5 reports the missing call
    a0 = seen["args"][0] if seen["args"] else seen["kw"].get("a")
    a1 = seen["args"][1] if len(seen["args"]) > 1 else seen["kw"].get("b")
    want0 = np.dot(s, np.dot(d, s))
    diff = first_difference(np.asarray(a0, dtype=object), want0) if a0 is not None else "missing"
    where = f"{dn.module.relpath}:{dn.lineno}"
    if diff is not None:
        ctx.violate("R5", f"derive_naturals hands the solver a matrix that is not S D S ({diff}): its eigenvalues are not the natural occupations", dn, dn.node, construct="eigh matrix is not S D S")
        return
    if a1 is None or first_difference(np.asarray(a1, dtype=object), s) is not None and first_difference(np.asarray(a1, dtype=object), s.T) is not None:
        ctx.violate("R5", "derive_naturals does not hand the overlap to the solver as the metric", dn, dn.node, construct="eigh metric is not S")
        return
    try:
        coeffs, occs = res
    except (TypeError, ValueError):
        ctx.violate("R5", "derive_naturals does not return (coefficients, occupations)", dn, dn.node, construct="derive_naturals return")
        return
    coeffs, occs = np.asarray(coeffs, dtype=object), np.asarray(occs, dtype=object)
    bad = None
    if coeffs.shape != (2, 2) or occs.shape != (2,):
        bad = f"shapes {coeffs.shape} / {occs.shape}"
    else:
        for k in range(2):
            src = [j for j in range(2) if Sym.const(occs[k]) == evals[j]]
            if len(src) != 1:
                bad = f"returned occupation {k} is `{occs[k]!r}`, not one of the solver's eigenvalues"
                break
            j = src[0]
            if not all(Sym.const(coeffs[i, k]) == evecs[i, j] for i in range(2)):
                bad = f"returned occupation {k} is the solver's eigenvalue {j}, but returned column {k} is not the solver's eigenvector {j}"
                break
    if bad:
        ctx.violate("R5", f"derive_naturals: {bad}: orbitals and occupations are paired wrongly (or altered)", dn, dn.node, construct=f"derive_naturals pairing: {bad}"[:160])
    else:
        ctx.ok("R5", "derive_naturals (solver stubbed, symbolic 2x2 D and S): solves (S D S) c = n S c and returns eigenvector k with eigenvalue k, unaltered", where)
    # the same with numbers and an overlap matrix of *integer* dtype (the identity of an orthonormal basis): what the
    # solver returns must come back unaltered -- eigenvectors filled into an array created "like" the overlap are
    # truncated to integers
    s_int = np.identity(2, dtype=int)
    d_num = np.array([[1.5, 0.25], [0.25, 0.5]])
    nevals = np.array([0.25, 1.75])
    nevecs = np.array([[0.6, -0.8], [0.8, 0.6]])
    ev = AccessorEval(prog, None, limit=2000)
    ev.module = dn.module
    ev.ext_stubs = {"scipy.linalg.eigh": lambda args, kw: (nevals.copy(), nevecs.copy())}
    try:
        c2, o2 = ev.run_free(dn, [d_num, s_int], {})
    except Raised as exc:
        ctx.violate("R5", f"derive_naturals raises {exc.args[0]} for an integer-typed identity overlap", dn, dn.node, construct="derive_naturals raises (integer overlap)")
        return
    except (NotSymbolic, TypeError, ValueError) as exc:
        raise AnalysisError(f"derive_naturals is outside the evaluation whitelist on numbers: {exc}") from exc
    c2 = np.asarray(c2, dtype=float)
    o2 = np.asarray(o2, dtype=float)
    # (a common re-ordering of occupations and columns is fine: compare as a set of (occupation, vector) pairs)
    pairs_ok = c2.shape == (2, 2) and o2.shape == (2,) and sorted((round(float(o2[k]), 12), tuple(np.round(c2[:, k], 12))) for k in range(2)) == sorted((round(float(nevals[k]), 12), tuple(np.round(nevecs[:, k], 12))) for k in range(2))
    if not pairs_ok:
        ctx.violate("R5", f"derive_naturals with an overlap matrix of integer dtype returns the coefficients {c2.tolist()} where the solver gave {nevecs.tolist()}: the eigenvectors are cast to the dtype of the overlap argument", dn, dn.node, construct="derive_naturals: eigenvectors altered for an integer overlap")
    else:
        ctx.ok("R5", "derive_naturals returns the solver's eigenvectors unaltered also for an overlap of integer dtype", where, sample=False)
