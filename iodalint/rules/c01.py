"""C01 -- wavefunction conversion never silently changes the wavefunction (structural clauses)."""

from __future__ import annotations

import ast

from .. import AnalysisError
from ..astutil import unpacked_pair, bind_call, deref, names_in, walk_stmts
from ..consteval import ConstEval
from ..layout import grouping_specs
from ..model import src_of
from .guards import check_guard_matrix

PROP = "C01"
LEVEL = "other"
TECHNIQUE = "static analysis: def-use rules on the five wavefunction writers (conversion applied as index-then-scale with the pair returned by one convert_conventions call), binding agreement of convention tables between sibling reader and writer, guard-matrix sibling check, format-spec analysis"
EXPLANATION = (
    "Static decision of the structural clauses of C01 on the writers fchk, molden, molekel, wfn, wfx: (R1) "
    "every use of the caller's orbital coefficients is `coeffs[P] * S` -- rows indexed first, then scaled -- "
    "with (P, S) the two results of one convert_conventions(basis, T) call; (R2) the target table T is the "
    "same module-level object the sibling reader passes to MolecularBasis(...); (R3) the basis section is "
    "written by iterating the basis' own shell list in order, the same basis the permutation was computed "
    "for; (R4) per-function scale vectors multiplied into converted coefficients are computed for a basis "
    "carrying the target conventions; (R5) a writer that converts coefficients and also writes density "
    "matrices converts those on both axes; (R6) prepare_dump guard matrix (generalized / missing orbitals / "
    "missing basis / pure shells / non-aufbau occupations rejected, conversions applied and returned); (R7) "
    "no numeric format spec with a grouping option in a fixed-point or integer field that the sibling reader "
    "parses with float()/int().  Declined: equality of orbital values, occupations, energies and densities "
    "to the digits printed; Molekel's '$$'-per-center encoding for unsorted centers; spin-labelling "
    "heuristics of the WFN reader."
)
TECHNIQUE += "; finite-domain constant evaluation of the Molden tag writer against the reader's tag branch; symbolic index-map evaluation of the convention-application expressions"
EXPLANATION += " Added: (R8) for all eight Cartesian/pure combinations of d, f, g shells the tags written by molden.dump_one are read back by the Molden reader's tag branch as the same kinds (both evaluated by the whitelisted constant evaluator); (R9) every expression that applies (permutation, signs) to orbital coefficients, evaluated on symbolic arrays with a non-trivial permutation, yields row r = signs[r] * source row permutation[r]."
TECHNIQUE += '; evaluation of the five prepare_dump routines on abstract objects'
EXPLANATION += ' R6 is now the semantic guard matrix: prepare_unrestricted_aminusb and the prepare_dump routine of each wavefunction writer are interpreted on 13 abstract objects (no orbitals / no basis / generalized / ROHF with a hole / fractional / unrestricted with alpha or beta hole / explicit occs_aminusb / pure shell / SP shell / general contraction ...) x allow_changes, and every outcome (error / same object / warned conversion) is compared with the documented capabilities (Appendix C).'
TRUSTED = ["CPython ast parser", "numpy fancy indexing a[p] places a[p[i]] at row i", "float()/int() do not accept thousands separators"]

WRITERS = ("fchk", "molden", "molekel", "wfn", "wfx")
COEFF_ATTRS = ("coeffs", "coeffsa", "coeffsb")
EXPLANATION += ' Added: (R10) a real-valued electron count, charge or multiplicity reaches an integer field of a wavefunction file only through rounding (never int() truncation or a float in a d field); (R11) convert_to_segmented, evaluated on abstract SP / PS / PD / generally contracted shells, keeps every contraction in its place (the coefficient rows are not re-ordered by the writers). R9 now takes every use of the orbital coefficients in a writer as an instance and follows local names over two-step applications.'
TECHNIQUE += '; count-field dataflow rule; accessor evaluation of the segmentation'
# --- metadata added for batch 7
TECHNIQUE += '; writer-fragment / reader-routine evaluation on model output and input streams (Molekel, Molden, WFN, WFX orbital sections)'
EXPLANATION += " Added after the clause-coverage audit: (R12) Molekel `$$` separators put each shell on its atom; (R13) WFX spin-type labels written for a set of orbitals are read back as the same kind and counts; (R14-R16) the [MO] / $COEFF / MOLECULAR ORBITAL sections of Molekel, Molden and WFN: the writer fragment is interpreted on a model object into a model output file and the reader routine on the resulting lines -- irreps, energies, occupations and coefficient columns of restricted and unrestricted sets come back in their own slots, and (Molden) a section header that follows the orbitals, directly or after an empty line, is still there for the section loop. R1's shape judgement was dropped: R9 (every use of the orbital coefficients evaluated on symbols) decides."
# --- end metadata batch 7
# --- metadata added for batch 8
TECHNIQUE += '; writer blocks against reader blocks for the FCHK basis, the WFN primitive lists and the Molden [GTO] centres'
EXPLANATION += " Added: (R17) the FCHK basis block of dump_one against the block of load_one that rebuilds the shells (s, SP, pure d, Cartesian f, p, pure g); (R18) the WFN centre / type / exponent lists against the format's TYPE ASSIGNMENTS numbering and the reader's build_obasis; (R19) the `[GTO]` part of the Molden writer against `_load_helper_obasis` on bases with atoms that carry no functions and shells not grouped by atom: the atom number heading a block attaches its shells. The guard matrix (R6) has rows for ghost centres and for shells listed out of atom order."
# --- end metadata batch 8
# --- metadata added after the round-2 refactoring twins

EXPLANATION += ' R15 (WFX spin labels): the reading side is the whole wfx.load_one with the section parser and the basis builder replaced by model values.'
# --- end metadata round-2 twins
# --- metadata added after the round-3 refactoring twins
TECHNIQUE += '; model-stream evaluation of the Molden loader for the tag lines'
EXPLANATION += ' R8 (and C03-R11): the reading side of the Molden tags is `_load_low` interpreted on a model stream with its three section readers replaced by model values (shells s..h, one orbital sized for the expected kinds), tags before and after the sections. R14..R19: the [GTO] writer may be a helper of the module.'
# --- end metadata round-3 twins
# --- metadata added after the round-4 refactoring twins
EXPLANATION += ' R8: the table of kinds the tag statements read may come from a helper. R17: the FCHK reader block may be a helper that is handed the field dictionary. C03-R9 (Molden [MO]): the whole section reader on a model stream of three orbitals.'
# --- end metadata round-4 twins
# --- metadata added for batch 9
TECHNIQUE += '; def-use provenance of the WFX sections'
EXPLANATION += ' Added: (R20) every per-atom WFX section is written from the attribute under which the reader files it (atomic numbers from atnums, nuclear charges from atcorenums), values followed through locals; the gradient keeps its sign.'
# --- end metadata batch 9
# --- metadata added after the round-5 refactoring twins
EXPLANATION += ' R9 / R15 / R18: single-definition locals in the writer index maps; the WFN orbital header may be printed by a helper; the WFN primitive lists may come from one tuple assignment.'
# --- end metadata round-5 twins


def module_closure(prog, root):
    return [f for f in prog.callees_closure([root]) if f.module is root.module]


def run(ctx):
    prog = ctx.prog
    ce = ConstEval(prog)
    cc = prog.func("iodata.convert.convert_conventions")
    mb_cls = prog.cls("iodata.basis.MolecularBasis")
    ctx.clauses_decided = ["R1 conventions applied (index, then scale)", "R2 target-table agreement", "R3 basis coherence", "R4 scale coherence", "R5 density matrices converted", "R6 prepare_dump guard matrix", "R7 written numbers are readable", "R8 Molden pure/Cartesian tags", "R9 convention application evaluated on symbols", "R10 integer count fields rounded", "R11 segmentation semantics", "R12 Molekel centre separators (evaluated)", "R13 WFX spin labels (evaluated)", "R14 Molekel orbital blocks (evaluated)", "R15 Molden [MO] section (evaluated)", "R16 WFN orbital sections (evaluated)"]
    ctx.clauses_declined = ["equality of orbital values / occupations / energies / densities to the digits printed", "Molekel '$$'-per-center encoding for unsorted centers", "spin-labelling heuristics of the WFN reader"]
    for rid, title, wit in (
        ("R1", "orbital coefficients are permuted, then sign-scaled, with the pair from one convert_conventions call", "rows in the wrong place or with the wrong sign for any shell whose convention differs from the target's"),
        ("R2", "writer and reader of a format use the same convention table", "IOData cannot read back its own file correctly"),
        ("R3", "the basis section lists the shells in the order the coefficient rows are in", "coefficients are attached to the wrong basis functions when shells are not grouped by center"),
        ("R4", "primitive-normalisation scales are computed in the target order", "Cartesian d/f/g rows are multiplied with the scale of another function"),
        ("R5", "density matrices are converted like the orbital coefficients", "a stored density matrix denotes another density after a convention change"),
        ("R7", "written numbers are readable", "a value >= 1000 in magnitude is written with a thousands separator the reader cannot parse"),
    ):
        ctx.rule(rid, title, wit)
    nuse = 0
    for short in WRITERS:
        mod = prog.module(f"iodata.formats.{short}")
        do = prog.format_op(short, "dump_one")
        lo = prog.format_op(short, "load_one")
        if do is None or lo is None:
            raise AnalysisError(f"{short}: dump_one / load_one missing")
        wclos = module_closure(prog, do)
        rclos = module_closure(prog, lo)
        dparam = do.posparams[1]
        # ---------------------------------------------------------- convert_conventions call sites
        sites = []
        for f in wclos:
            for cs in f.calls:
                if cc in cs.callees:
                    sites.append((f, cs))
        if not sites:
            ctx.violate("R1", f"{short} writer never calls convert_conventions: coefficients are written in the object's own conventions", do, do.node, construct="convert_conventions missing")
            continue
        targets = set()
        for f, cs in sites:
            pmf = prog.parents(f)
            b, e, okb = bind_call(cs.node, cc)
            tbl = b.get(cc.posparams[1])
            r = prog.resolve_expr(f, f.module, tbl) if tbl is not None else None
            rev = b.get(cc.posparams[2]) if len(cc.posparams) > 2 else None
            if rev is not None and not (isinstance(rev, ast.Constant) and rev.value is False):
                ctx.violate("R1", f"{short} writer converts with reverse={src_of(rev)} (file -> object direction)", f, cs.node)
            if r and r[0] == "global":
                targets.add((r[1].name, r[2]))
            else:
                ctx.violate("R2", f"{short} writer: the target conventions `{src_of(tbl) if tbl is not None else None}` do not resolve to a module-level table", f, cs.node)
            basis_arg = b.get(cc.posparams[0])
            pair = unpacked_pair(f, cs.node, pmf)
            if pair is None:
                ctx.violate("R1", f"{short} writer does not unpack convert_conventions into (permutation, signs)", f, cs.node)
                continue
            pn, sn = pair
            # ------------------------------------------------------ R1: every coefficient use
            for n in f.own_nodes():
                if isinstance(n, ast.Attribute) and n.attr in COEFF_ATTRS and isinstance(n.value, ast.Attribute) and n.value.attr == "mo" and isinstance(n.ctx, ast.Load):
                    p1 = pmf.get(id(n))
                    if isinstance(p1, ast.Attribute) and p1.attr in ("shape", "ndim", "dtype", "size"):
                        continue
                    if isinstance(p1, ast.Compare):
                        continue  # `is None` tests
                    nuse += 1
                    where = f"{f.module.relpath}:{n.lineno}"
                    # what is done with the coefficients is decided by R9 (evaluated on symbols, following local names);
                    # R1 only records that the use sits in a function that holds the (permutation, signs) pair
                    ctx.ok("R1", f"{short}: `{src_of(n)}` is used where ({pn}, {sn}) of convert_conventions are in scope", where)
            # the basis the permutation is computed for is the caller's (prepared) basis
            btxt = src_of(basis_arg) if basis_arg is not None else ""
            bd = deref(f, basis_arg) if basis_arg is not None else None
            if not (src_of(bd).endswith(".obasis")):
                ctx.violate("R3", f"{short} writer computes the permutation for `{btxt}`, not for the object's basis", f, cs.node)
            # ------------------------------------------------------ R3: shell loops
            for n in f.own_nodes():
                if isinstance(n, ast.For):
                    it = n.iter
                    itxt = src_of(it)
                    if ".shells" in itxt and not itxt.endswith(".shells"):
                        inner = [c for c in ast.walk(it) if isinstance(c, ast.Call) and getattr(c.func, "id", "") in ("sorted", "reversed", "filter")]
                        if inner:
                            ctx.violate("R3", f"{short} writer writes the basis by iterating `{itxt[:70]}` while the coefficient permutation is computed for the unsorted shell list: rows no longer match the printed basis functions when shells are not already in that order", f, n, construct=f"for shell in {itxt[:90]}")
                    elif itxt.endswith(".shells"):
                        ctx.ok("R3", f"{short}: shells written in stored order ({itxt})", f"{f.module.relpath}:{n.lineno}", sample=False)
            # ------------------------------------------------------ R4: scale vectors from a rebuilt basis
            for cs2 in f.calls:
                if cs2.cls is mb_cls:
                    par2 = pmf.get(id(cs2.node))
                    if not isinstance(par2, ast.Assign) or not isinstance(par2.targets[0], ast.Name):
                        continue
                    newb = par2.targets[0].id
                    # is the rebuilt basis used to compute per-function factors multiplied into converted coefficients?
                    users = [c for c in f.calls if c.callees and c.cls is None and any(isinstance(a, ast.Name) and a.id == newb for a in c.node.args)]
                    if not users:
                        continue
                    fields = list(mb_cls.fields)
                    bound = {fields[i]: a for i, a in enumerate(cs2.node.args)}
                    bound.update({k.arg: k.value for k in cs2.node.keywords})
                    conv = bound.get("conventions")
                    rconv = prog.resolve_expr(f, f.module, conv) if isinstance(conv, (ast.Name, ast.Attribute)) else None
                    tgt = next(iter(targets)) if targets else None
                    if rconv and rconv[0] == "global" and tgt and (rconv[1].name, rconv[2]) == tgt:
                        ctx.ok("R4", f"{short}: the de-contracted basis used for {users[0].callees[0].name} carries the target conventions", f"{f.module.relpath}:{cs2.node.lineno}")
                    else:
                        ctx.violate("R4", f"{short} writer builds the de-contracted basis with `{src_of(conv)}` (the source conventions) and feeds it to {users[0].callees[0].name}: the per-function factors come out in source order but multiply rows that are already in {tgt[1] if tgt else 'target'} order", f, cs2.node)
            # ------------------------------------------------------ R5: density matrices
            rdm_reads = [n for n in f.own_nodes() if isinstance(n, ast.Attribute) and n.attr == "one_rdms"]
            if rdm_reads:
                # any subscript of an rdm array by the permutation?
                conv_rdm = any(isinstance(n, ast.Subscript) and pn in names_in(n.slice) and not any(isinstance(x, ast.Attribute) and x.attr in COEFF_ATTRS for x in ast.walk(n.value)) for n in f.own_nodes())
                if conv_rdm:
                    ctx.ok("R5", f"{short}: density matrices are indexed with the convention permutation", f"{f.module.relpath}:{rdm_reads[0].lineno}")
                else:
                    ctx.violate("R5", f"{short} writer converts the orbital coefficients to the file's conventions but writes data.one_rdms as stored (no permutation / sign on either axis)", f, rdm_reads[0], construct=f"{short}: one_rdms written unconverted")
        # ---------------------------------------------------------- R2: the reader's table
        rtables = set()
        for f in rclos + [g for g in prog.callees_closure([lo]) if g.module.name.startswith("iodata.formats.")]:
            for cs in f.calls:
                if cs.cls is mb_cls:
                    fields = list(mb_cls.fields)
                    bound = {fields[i]: a for i, a in enumerate(cs.node.args)}
                    bound.update({k.arg: k.value for k in cs.node.keywords})
                    conv = bound.get("conventions")
                    r = prog.resolve_expr(f, f.module, conv) if isinstance(conv, (ast.Name, ast.Attribute)) else None
                    if r and r[0] == "global":
                        rtables.add((r[1].name, r[2]))
        if len(targets) == 1 and next(iter(targets)) in rtables:
            t = next(iter(targets))
            ctx.ok("R2", f"{short}: writer target and reader basis both use {t[0]}.{t[1]}", do.where)
        else:
            ctx.violate("R2", f"{short}: the writer converts to {sorted(targets)} but the reader builds its basis with {sorted(rtables)}", do, do.node, construct=f"writer {sorted(targets)} vs reader {sorted(rtables)}")
        # ---------------------------------------------------------- R7: grouping options
        reads_float = any(isinstance(n, ast.Call) and getattr(n.func, "id", "") in ("float", "int") for f in rclos for n in f.own_nodes())
        for f in wclos:
            for node, spec, typ in grouping_specs(f, ce):
                where = f"{f.module.relpath}:{node.lineno}"
                if typ in ("e", "E"):
                    ctx.ok("R7", f"{short}: `{spec}` (scientific notation: one digit before the point, grouping can never fire)", where, sample=False)
                elif typ in ("f", "F", "d", "n", "g", "G", "", "%"):
                    ctx.violate("R7", f"{short} writer formats a number with `{spec}`: values of magnitude >= 1000 get a thousands separator, which the reader's float()/int() rejects", f, node, construct=f"{short}: format spec `{spec}`")
    ctx.floor("R1", nuse, 8, "orbital-coefficient uses in the writers")
    # ------------------------------------------------------------------ R6
    ctx.rule("R6", "prepare_dump guard matrix", "an unsupported object reaches a writer that mis-writes it")
    check_guard_matrix(ctx, "R6")
    check_molden_tags(ctx, ce)
    from .c02 import check_count_fields
    from .segpred import check_segmentation

    check_count_fields(ctx, "R10")
    from .centers import check_molekel_centers

    ctx.rule("R12", "Molekel: the `$$` separators written before a shell put it on its atom when read (writer and reader evaluated)", "shells move to another atom (every orbital changes) when an atom carries no basis functions")
    check_molekel_centers(ctx, "R12")
    from .centers import check_wfx_spin_labels

    ctx.rule("R13", "WFX: the spin-type labels written for a set of orbitals are read back as the same kind and counts (writer and reader evaluated)", "restricted orbitals with occupations that never exceed 1 come back as alpha-only unrestricted orbitals: the alpha electron count doubles, beta vanishes")
    check_wfx_spin_labels(ctx, "R13")
    from .centers import check_molekel_mo_blocks

    ctx.rule("R14", "Molekel: irreps, energies, occupations and coefficient columns of every orbital come back in their own slot (writer and reader helpers evaluated)", "beta orbitals get the irreps / energies of other orbitals, or a block of five is cut at the wrong column")
    check_molekel_mo_blocks(ctx, "R14")
    from .centers import check_molden_mo_blocks

    ctx.rule("R15", "Molden: energy, irrep, spin, occupation and coefficients of every orbital come back in their own slot (writer fragment and reader routine evaluated)", "occupations and energies swapped, the beta block written with alpha energies, or a spin label the reader does not take as alpha")
    check_molden_mo_blocks(ctx, "R15")
    from .centers import check_wfn_mo_blocks

    ctx.rule("R16", "WFN: number, occupation, energy and coefficients of every orbital come back in their own slot (writer fragment and reader routine evaluated)", "occupation and orbital energy swapped in the MO header line, or a coefficient line cut at the wrong column")
    check_wfn_mo_blocks(ctx, "R16")
    ctx.rule("R17", "FCHK: shell types, centres, primitives and SP coefficients written are rebuilt as the same shells (writer block and reader block evaluated)", "the sign that marks pure shells lost or inverted, SP coefficients attached to the primitives of another shell: the coefficients are read for other basis functions")
    from .centers import check_fchk_basis_block

    check_fchk_basis_block(ctx, "R17")
    ctx.rule("R18", "WFN: centre, type and exponent lists written for the de-contracted basis carry the format's numbering and are regrouped by the reader into the same primitives (evaluated)", "type numbers restart per shell or skip an absent angular momentum: the coefficients are read for other Cartesian functions")
    from .centers import check_wfn_primitive_lists

    check_wfn_primitive_lists(ctx, "R18")
    ctx.rule("R19", "Molden: the atom number that heads a [GTO] block attaches its shells to that atom when read (writer part and reader routine evaluated)", "blocks numbered consecutively instead of by atom: with an atom that carries no functions every later shell moves to another nucleus")
    from .centers import check_molden_centers

    check_molden_centers(ctx, "R19")
    ctx.rule("R20", "WFX: atomic numbers, core charges and the gradient are written from their own attributes (the nuclei of the converted file are those of the source)", "atomic numbers written from rounded core charges: ECP and ghost centres become other elements")
    from .c02 import check_wfx_field_sources

    check_wfx_field_sources(ctx, "R20")
    ctx.rule("R11", "segmentation before writing keeps every contraction, in order (evaluated)", "an SP / PS / general contraction is re-ordered or merged on the way to the file while the coefficient rows stay where they were")
    check_segmentation(ctx, "R11", "R11")
    ctx.rule("R9", "written coefficient rows are signs[r] x rows[permutation[r]] (symbolic evaluation of the writer expressions)", "signs are attached to the rows before they are moved (or the permutation is applied twice / on the wrong axis): coefficients of sign-flipped functions change sign or position")
    from .indexmaps import check_index_maps

    check_index_maps(ctx, "R9", ["writer_conventions"])


def molden_reader_pure(prog, tag_lines, tags_last=False):
    """Which angular momenta (2..5) the Molden reader makes pure for the given tag lines: `_load_low` interpreted on a
    model stream -- header, the tag lines (before the sections, or after them), `[Atoms]`, `[GTO]`, `[MO]` -- with the
    three section readers replaced by model values: shells s, p, d, f, g, h (all Cartesian until a tag says otherwise)
    and one orbital with as many coefficients as the basis has functions *if the tags are read as `expect_pure`*.
    -> set of pure l, or the name of the exception raised."""
    import numpy as np

    from ..accessors import AccessorEval, Raised, Rec
    from ..symarr import NotSymbolic

    lo = prog.func("iodata.formats.molden._load_low")
    licls = prog.cls("iodata.utils.LineIterator")
    shcls = prog.cls("iodata.basis.Shell")
    mbcls = prog.cls("iodata.basis.MolecularBasis")

    def run(expect_pure):
        shells = [Rec(shcls, icenter=0, angmoms=np.array([l]), kinds=["c"], exponents=np.array([1.0]), coeffs=np.array([[1.0]])) for l in range(6)]
        obasis = Rec(mbcls, shells=shells, conventions={}, primitive_normalization="L2")
        nb = sum((2 * l + 1) if l in expect_pure else (l + 1) * (l + 2) // 2 for l in range(6))
        alpha = (np.array([1.0]), np.zeros((nb, 1)), np.array([0.0]), ["a"])
        sections = ["[Atoms] AU\n", "[GTO]\n", "[MO]\n"]
        lines = ["[Molden Format]\n"] + (sections + list(tag_lines) if tags_last else list(tag_lines) + sections)
        lit = Rec(licls, filename="F", fh=iter(lines), lineno=0, stack=[])
        ev = AccessorEval(prog, licls, limit=8000)
        ev.module = lo.module
        ev.stubs = {
            "iodata.formats.molden._load_helper_atoms": lambda a, k: (np.array([1]), np.array([1.0]), np.zeros((1, 3))),
            "iodata.formats.molden._load_helper_obasis": lambda a, k: obasis,
            "iodata.formats.molden._load_helper_coeffs": lambda a, k: (alpha, (None, None, None, None)),
        }
        for q in ev.stubs:
            if q not in prog.funcs:
                raise AnalysisError(f"{q} not found (section reader of the Molden loader)")
        try:
            res = ev.run_free(lo, [lit], {})
        except Raised as exc:
            return exc.args[0]
        except NotSymbolic as exc:
            raise AnalysisError(f"molden._load_low is outside the evaluation whitelist: {exc}") from exc
        ob = res.get("obasis") if isinstance(res, dict) else None
        if not isinstance(ob, Rec):
            raise AnalysisError("molden._load_low: no basis in the result of the model evaluation")
        return {int(np.asarray(sh.fields["angmoms"]).ravel()[0]) for sh in ob.fields["shells"] if list(sh.fields["kinds"])[0] == "p"}

    # the number of coefficients must fit the kinds the reader derives: try the candidates, the consistent one wins
    import itertools

    for r in range(0, 5):
        for cand in itertools.combinations((2, 3, 4, 5), r):
            got = run(set(cand))
            if isinstance(got, set) and got == set(cand):
                return got
    return run(set())


def check_molden_tags(ctx, ce):
    """R8: the Molden writer's pure/Cartesian tags mean, to the Molden reader, the kinds that were written.

    Both sides are evaluated over the whole finite domain (d, f, g each Cartesian or pure): the writer's tag
    statements with a recording sink, then the reader's tag branch on each emitted line.
    """
    import itertools
    import re

    from ..consteval import NotConstant, Sink, _Env

    prog = ctx.prog
    ctx.rule("R8", "Molden pure/Cartesian tags: what the writer emits means the written kinds to the reader", "a d-pure/f-Cartesian (or similar) basis is tagged so that the reader assumes other shell sizes: the file cannot be read back or is misread")
    do = prog.format_op("molden", "dump_one")
    lo = prog.func("iodata.formats.molden._load_low")
    tagre = re.compile(r"\[\d+[dfg]", re.I)
    # writer: the maximal run of top-level statements that write tag constants
    wst = [st for st in do.body if any(isinstance(x, ast.Constant) and isinstance(x.value, str) and tagre.match(x.value) for x in ast.walk(st))]
    kv = None
    # the table of kinds per angular momentum the tag statements read: a local of the writer (a dictionary literal
    # filled in place, or the result of a helper), subscripted with the angular momentum in the tag tests
    dict_locals = {t.id for n_ in do.own_nodes() if isinstance(n_, ast.Assign) for t in n_.targets if isinstance(t, ast.Name)}
    for st in wst:
        for x in ast.walk(st):
            if isinstance(x, ast.Subscript) and isinstance(x.value, ast.Name) and x.value.id in dict_locals:
                kv = x.value.id
    fparam = do.posparams[0]
    if not wst or kv is None:
        ctx.violate("R8", "cannot find the tag-writing statements of molden.dump_one", do, do.node, construct="molden tag code")
        return
    # how the reader normalises a line before the chain
    bad = []
    n = 0
    for kinds in itertools.product("cp", repeat=3):
        want = {l for l, k in zip((2, 3, 4), kinds) if k == "p"}
        sink = Sink()
        env = _Env(ce, do.module, do, {kv: {2: kinds[0], 3: kinds[1], 4: kinds[2], 5: kinds[2]}, fparam: sink})
        try:
            env.run(wst)
        except NotConstant as exc:
            raise AnalysisError(f"molden tag writer is outside the constant-evaluation whitelist: {exc}") from exc
        lines = [ln for ln in "".join(sink.text).split("\n") if ln.strip()]
        unknown = []
        got = molden_reader_pure(prog, [ln + "\n" for ln in lines])
        if not isinstance(got, set):
            unknown = [f"the reader raises {got}"]
            got = set()
        got = {l for l in got if l in (2, 3, 4)}
        n += 1
        if unknown or got != want:
            bad.append((kinds, lines, sorted(got), sorted(want), unknown))
    if bad:
        kinds, lines, got, want, unknown = bad[0]
        ctx.violate("R8", f"kinds d,f,g = {kinds}: the writer emits {lines}, which the reader takes as pure l = {got}" + (f" (unrecognised: {unknown})" if unknown else "") + f", written pure l = {want} ({len(bad)} of {n} combinations differ)", do, wst[0], construct=f"molden tags {''.join(kinds)}: {lines}")
    else:
        ctx.ok("R8", f"all {n} combinations of Cartesian/pure d, f, g shells: tags written by dump_one are read back as the same kinds", f"{do.module.relpath}:{wst[0].lineno}")


# What each tag line of the Molden format means (Molden format description, section "[5D] [7F] [9G]": by default
# 6d / 10f / 15g Cartesian functions; [5D] and [5D7F]: 5 d and 7 f; [5D10F]: 5 d and 10 f; [7F]: 6 d and 7 f;
# [9G]: 9 g).  Value = angular momenta (2..4) that become pure.
MOLDEN_TAG_MEANING = {"[5D]": {2, 3}, "[5D7F]": {2, 3}, "[5D10F]": {2}, "[7F]": {3}, "[9G]": {4}}


def check_molden_reader_tags(ctx, ce, rid):
    """The tag branch of the Molden reader, evaluated on every tag line of the format (in the spellings programs
    use), marks exactly the angular momenta the format assigns to that tag."""
    import re

    from ..consteval import NotConstant, _Env

    prog = ctx.prog
    lo = prog.func("iodata.formats.molden._load_low")
    rchain = lo.node
    bad = []
    n_ok = 0
    for tag, want in MOLDEN_TAG_MEANING.items():
        for raw in (tag, tag.lower(), tag + "  ", " " + tag):
            for last in (False, True):
                got = molden_reader_pure(prog, [raw + "\n"], tags_last=last)
                where = " after the sections" if last else ""
                if not isinstance(got, set):
                    bad.append((raw, f"given{where}: the reader raises {got}"))
                    continue
                got = {l for l in got if l in (2, 3, 4)}
                if got != want:
                    bad.append((raw, f"given{where}: marks l = {sorted(got)} as pure, the format says {sorted(want)}"))
                else:
                    n_ok += 1
    if bad:
        raw, why = bad[0]
        ctx.violate(rid, f"Molden tag line {raw!r}: {why} ({len(bad)} tag spelling(s) differ)", lo, rchain, construct=f"molden reader tag {raw.strip()!r}: {why}"[:160])
    else:
        ctx.ok(rid, f"{n_ok} evaluations ([5D], [5D7F], [5D10F], [7F], [9G] in four spellings, before and after the sections): the loader makes exactly the shells pure that the format assigns to the tag", f"{lo.module.relpath}:{lo.lineno}")
