"""C04 -- every physical quantity is in atomic units (unit-tag dataflow)."""

from __future__ import annotations

import ast
import json
import os

from .. import AnalysisError
from ..absint import Interp, State, V
from ..consteval import ConstEval, NotConstant, Opaque
from ..domains.units import BOT, PLAIN, UNIT_NAMES, UnitDomain, show
from ..model import src_of
from ..report import VERIF
from ..schema import iodata_attr_names

PROP = "C04"
LEVEL = "other"
TECHNIQUE = "static analysis: flow-sensitive unit-tag abstract interpretation (formal monomials over the unit constants) from the parse of the file text to every loader result slot and from the caller's attributes to every writer output sink; constant evaluation of the unit constants against frozen CODATA values"
EXPLANATION = (
    "Static decision of the structural clauses of C04: (R1) for every loader the unit monomial carried by "
    "each result slot (what the parsed numbers were multiplied/divided by on every path, through helpers, "
    "containers, loops and in-place updates) equals the unit the format prescribes (frozen oracle, "
    "Appendix A of DESIGN.md); any slot not in the oracle must carry no unit factor; all components of one "
    "quantity carry the same factor; the column tables of XYZ / extended XYZ are analysed row by row; (R2) "
    "for every writer and input generator the monomial of each dimensional attribute at the output sink is "
    "the inverse of the reader's; (R3) the ten unit constants evaluate, with frozen CODATA values for the "
    "scipy.constants names, to independently stated factors within 1e-7.  Declined: 'the same system in "
    "two formats loads to the same numbers' as a numerical statement; CODATA consistency beyond the ten "
    "constants."
)
TECHNIQUE += '; finite-domain constant evaluation of the VASP coordinate-mode switch; symbolic index-map evaluation of cell/grid scaling'
EXPLANATION += ' Added: (R4) the statements of the VASP header reader that decide Cartesian vs direct coordinates, evaluated for every first character (with and without a selective-dynamics line), select Cartesian exactly for C, c, K, k; (R5) cube cell vectors = step vector i x count i and VASP grid axes = cell vector i / count i, read off the broadcasting expression evaluated on symbols.'
EXPLANATION += ' R2 now also covers the QCSchema writer (json.dump sink); R3 evaluates re-defined constants against the full frozen scipy.constants table (spec/codata_full.json).'
# --- metadata added for batch 7
TECHNIQUE += '; evaluation of the [Atoms] unit selection on every spelling'
EXPLANATION += ' Added: (R6) Molden `[Atoms]` line: the unit keyword (AU / Angs, any case, with or without parentheses) selects the coordinate factor, evaluated with a marker factor; the units domain joins units under partial in-place scaling (a slice scaled, or entries stored after the array was scaled, carry a mixed unit).'
# --- end metadata batch 7
# --- metadata added for batch 8
TECHNIQUE += '; reader routines evaluated with marker factors (VASP header, GRO frame)'
EXPLANATION += " Added: (R7) VASP cell and Cartesian positions carry scaling factor x angstrom, direct positions the cell's unit (C03-R22 with angstrom = 1000); (R8) GRO time in ps, positions and box in nm, velocities in nm/ps however the numbers are written (C03-R23 with marker factors)."
# --- end metadata batch 8
# --- metadata added after the round-3 refactoring twins
TECHNIQUE += '; whole evaluation of the VASP header reader for the coordinate mode'
EXPLANATION += ' R4: the VASP header reader is interpreted as a whole on model files for every first character of the mode line, with and without a selective-dynamics line; Cartesian and direct reading give different positions of the model atom.'
# --- end metadata round-3 twins
# --- metadata added for batch 9
EXPLANATION += ' Added: (R9) cube lengths and the angstrom flag (header pair and loader evaluated); (R10) the WFX gradient section is written as dE/dR without a change of sign.'
# --- end metadata batch 9
# --- metadata added after the last twin round
EXPLANATION += ' The unit-tag interpreter treats `zip(*records)` over a list of fixed-arity tuples as a transposition (one list per field), so that a reader which collects one tuple per record and splits the columns afterwards keeps one unit per column.'
# --- end metadata last twin round
TRUSTED = ["CPython ast parser", "frozen unit oracle (DESIGN.md Appendix A; format specifications)", "frozen CODATA 2018 values in spec/codata.json"]

# non-plain reader slots: (module, key path) -> expected tag text.  Everything else must be plain.
READ_ORACLE = {
    "charmm": {".atcoords": "angstrom", ".atmasses": "amu"},
    "chgcar": {".atcoords": "angstrom", ".cellvecs": "angstrom", ".cube.axes": "angstrom", ".cube.data": "volume^-1"},
    "locpot": {".atcoords": "angstrom", ".cellvecs": "angstrom", ".cube.axes": "angstrom", ".cube.data": "electronvolt"},
    "poscar": {".atcoords": "angstrom", ".cellvecs": "angstrom"},
    "fchk": {".atmasses": "amu"},
    "gamess": {".atcoords": "angstrom", ".atmasses": "amu"},
    "gaussianinput": {".atcoords": "angstrom"},
    "gromacs": {".atcoords": "nanometer", ".cellvecs": "nanometer", ".extra.time": "picosecond", ".extra.velocities": "nanometer·picosecond^-1"},
    "mol2": {".atcoords": "angstrom"},
    "molekel": {".atcoords": "angstrom"},
    "mwfn": {".atcoords": "angstrom"},
    "pdb": {".atcoords": "angstrom"},
    "sdf": {".atcoords": "angstrom"},
    "xyz": {".atcoords": "angstrom"},
    "molden": {".atcoords": "{} | angstrom"},
    "qchemlog": {
        ".atcoords": "angstrom", ".atmasses": "amu", ".extra.vib_energy": "kcalmol", ".extra.enthalpy_dict.*": "kcalmol",
        ".extra.entropy_dict.*": "calmol", ".extra.eda2.*": "{} | kjmol", ".extra.frags": "{} | angstrom",
        ".moments.(1, 'c')": "debye", ".moments.(2, 'c')": "debye·angstrom",
    },
    "json_qcschema": {".atmasses": "amu"},
}
READ_NOTES = {
    ("molden", ".atcoords"): "AU or Angs chosen by the [Atoms] header: both alternatives are expected",
    ("qchemlog", ".extra.eda2.*"): "set twice: copied unscaled by the label comprehension, then replaced by the kJ/mol-scaled dict under `if 'eda2' in data` (same condition; not correlated by the analysis)",
    ("qchemlog", ".extra.frags"): "list of fragment dicts: coordinates in angstrom next to plain atomic numbers",
}
# writer: (module, attribute) -> expected residual monomial text (what the attribute is multiplied by before printing)
WRITE_ORACLE = {
    "xyz": {"atcoords": "angstrom^-1"},
    "pdb": {"atcoords": "angstrom^-1"},
    "mol2": {"atcoords": "angstrom^-1"},
    "sdf": {"atcoords": "angstrom^-1"},
    "molekel": {"atcoords": "angstrom^-1"},
    "fchk": {"atmasses": "amu^-1"},
    "poscar": {"cellvecs": "angstrom^-1"},
    "gaussian": {"atcoords": "angstrom^-1"},
    "orca": {"atcoords": "angstrom^-1"},
    "json_qcschema": {"atmasses": "amu^-1"},
}
# column tables: attribute -> (reader tag, writer residual)
COLUMN_ORACLE = {"atcoords": ("angstrom", "angstrom^-1"), "atmasses": ("amu", "amu^-1"), "cellvecs": ("angstrom", None)}
COLUMN_NOTES = "extended XYZ energy / forces are passed through unconverted (documented exception: module comment 'No unit convertion takes place for the other attributes')"


def flatten(it, st, v, prefix, out, depth=0):
    o = it.obj(st, v)
    if o is None or depth > 2 or o.kind in ("func", "module", "external", "class", "array", "list", "tuple", "set"):
        out[prefix] = it.d._deep(it, v, st)
        return
    if o.kind in ("dict", "obj") or (o.kind == "unknown" and any(isinstance(k, (str, tuple)) for k in o.slots)):
        for k, sv in o.slots.items():
            flatten(it, st, sv, f"{prefix}.{str(k).lstrip('.')}", out, depth + 1)
        if o.elem is not None:
            out[prefix + ".*"] = it.d._deep(it, o.elem, st)
    else:
        out[prefix] = it.d._deep(it, v, st)


def run(ctx):
    prog = ctx.prog
    ce = ConstEval(prog)
    ctx.clauses_decided = ["R1 reader units", "R2 writer units are the inverse", "R3 the ten constants", "R4 VASP coordinate-mode switch", "R5 axis-wise scaling of cell / grid vectors (symbolic evaluation)"]
    ctx.clauses_declined = ["same system in two formats loads to the same numbers (numerical)", "CODATA consistency beyond the ten constants"]
    ctor, allattrs = iodata_attr_names(prog)

    # ------------------------------------------------------------------ R3
    ctx.rule("R3", "the ten unit constants have their CODATA values", "a swapped numerator/denominator or CODATA key changes every converted quantity by a constant factor")
    with open(os.path.join(VERIF, "spec", "codata.json")) as fh:
        spec = json.load(fh)
    table = spec["scipy"]

    with open(os.path.join(VERIF, "spec", "codata_full.json")) as fh:
        full = json.load(fh)

    def spc_value(key):
        if key in table:
            return table[key]
        if key in full["value"]:
            return full["value"][key]
        raise NotConstant(f"scipy.constants.value({key!r}) is not in the frozen CODATA tables")

    ext = {"scipy.constants." + k: v for k, v in full["attr"].items()}
    ext.update({"scipy.constants.value": spc_value, "scipy.constants.angstrom": table["angstrom"], "scipy.constants.calorie": table["calorie"]})
    ce3 = ConstEval(prog, externals=ext)
    um = prog.module("iodata.utils")
    for name in UNIT_NAMES:
        if name not in um.bindings:
            ctx.violate("R3", f"unit constant `{name}` is no longer defined in iodata.utils", relpath=um.relpath, function=f"iodata.utils.{name}", construct="missing")
            continue
        try:
            val = ce3.global_value(um, name)
        except NotConstant as exc:
            raise AnalysisError(f"cannot evaluate iodata.utils.{name}: {exc}") from exc
        ref = spec["reference"][name]
        rel = abs(val / ref - 1.0) if isinstance(val, (int, float)) and ref else 1.0
        where = f"{um.relpath}:{um.bindings[name].stmt.lineno}"
        if rel <= spec["tolerance"]:
            ctx.ok("R3", f"{name} = {val:.10g} (reference {ref:.10g}, rel. deviation {rel:.1e})", where)
        else:
            ctx.violate("R3", f"unit constant `{name}` evaluates to {val!r}, the CODATA reference is {ref!r} (relative deviation {rel:.2e})", relpath=um.relpath, function=f"iodata.utils.{name}", construct=f"{name} = {src_of(um.bindings[name].value)}")
            ctx.findings[-1].line = um.bindings[name].stmt.lineno

    # ------------------------------------------------------------------ R1
    ctx.rule("R1", "loader result slots carry the unit the format prescribes", "a dropped, swapped, doubled or partially applied unit factor changes a loaded quantity")
    nsites = 0
    for short in prog.format_modules():
        for op in ("load_one", "load_many"):
            f = prog.format_op(short, op)
            if f is None:
                continue
            if op == "load_many" and short != "fchk":
                continue  # the concatenation formats yield load_one's result unmodified (C13-R6)
            dom = UnitDomain(prog)
            it = Interp(prog, dom)
            try:
                ret, st = it.run_function(f, {}, State())
            except AnalysisError as exc:
                raise AnalysisError(f"while analysing {f.qualname}: {exc}") from exc
            if f.is_generator:
                o = it.obj(st, ret)
                ret = o.elem if o is not None else None
            out = {}
            if ret is not None:
                flatten(it, st, ret, "", out)
            want = dict(READ_ORACLE.get(short, {})) if op == "load_one" else {}
            for key in sorted(set(out) | set(want)):
                got = out.get(key, BOT)
                gs = show(got)
                plain = got in (BOT, PLAIN)
                where = f.where
                if key in want:
                    nsites += 1
                    if gs == want[key]:
                        note = READ_NOTES.get((short, key))
                        ctx.ok("R1", f"{short} {key.lstrip('.')}: {gs}" + (f"  ({note})" if note else ""), where)
                    else:
                        ctx.violate("R1", f"{short}.{op}: `{key.lstrip('.')}` carries unit factor `{gs}`, the format prescribes `{want[key]}`", f, f.node, construct=f"{key.lstrip('.')}: {gs} (expected {want[key]})")
                elif key == ".*":
                    ctx.note(f"{short}.{op}: attributes stored under computed keys carry `{gs}`; decided per attribute by the column-table rows below")
                elif not plain:
                    nsites += 1
                    ctx.violate("R1", f"{short}.{op}: `{key.lstrip('.')}` carries unit factor `{gs}` although the format stores it in atomic units / without unit", f, f.node, construct=f"{key.lstrip('.')}: {gs} (expected none)")
                else:
                    ctx.ok("R1", f"{short} {key.lstrip('.')}: no unit factor", where, sample=False, nontrivial=False)
    ctx.extra["reader_unit_sites"] = nsites
    ctx.floor("R1", nsites, 35, "reader unit sites")

    # column tables (xyz, extxyz): 6-tuples (attr, key, shape, dtype, load_word, dump_word)
    ncol = 0
    for mod in prog.modules.values():
        if not mod.name.startswith("iodata.formats."):
            continue
        holders = [mod.toplevel] + mod.funcs
        for h in holders:
            for n in h.own_nodes():
                if isinstance(n, ast.Tuple) and len(n.elts) == 6 and isinstance(n.elts[0], ast.Constant) and isinstance(n.elts[0].value, str) and isinstance(n.elts[4], ast.Lambda) and isinstance(n.elts[5], ast.Lambda):
                    attr = n.elts[0].value
                    ncol += 1
                    lw = prog.func_of_node.get(id(n.elts[4]))
                    dw = prog.func_of_node.get(id(n.elts[5]))
                    dom = UnitDomain(prog)
                    it = Interp(prog, dom)
                    r1, s1 = it.run_function(lw, {lw.posparams[0]: V(PLAIN)}, State())
                    dom2 = UnitDomain(prog, attr_sources={dw.qualname: {dw.posparams[0]}})
                    it2 = Interp(prog, dom2)
                    r2, s2 = it2.run_function(dw, {}, State())
                    got_r = show(dom._deep(it, r1, s1))
                    resid = set()
                    for m in dom2._deep(it2, r2, s2):
                        resid.add(show(frozenset([tuple((k, v) for k, v in m if not k.startswith("@"))])))
                    got_w = " | ".join(sorted(resid))
                    exp_r, exp_w = COLUMN_ORACLE.get(attr, ("{}", "{}"))
                    where = f"{mod.relpath}:{n.lineno}"
                    if got_r == exp_r and got_w == (exp_w or "{}"):
                        ctx.ok("R1", f"{mod.short} column `{attr}`: load x {got_r}, dump x {got_w}", where)
                    else:
                        fobj = h if h is not mod.toplevel else None
                        ctx.violate("R1", f"{mod.short} column `{attr}`: load_word applies `{got_r}` (expected `{exp_r}`), dump_word applies `{got_w}` (expected `{exp_w or '{}'}`)", func=fobj, relpath=mod.relpath, function=(fobj.qualname if fobj else mod.name), construct=f"column {attr}: load {got_r} dump {got_w}")
                        ctx.findings[-1].line = n.lineno
    # extxyz title attributes: dict of (attr, loader) pairs
    ex = prog.modules.get("iodata.formats.extxyz")
    if ex is not None:
        for h in ex.funcs:
            for n in h.own_nodes():
                if isinstance(n, ast.Dict) and n.values and all(isinstance(v, ast.Tuple) and len(v.elts) == 2 and isinstance(v.elts[0], ast.Constant) and isinstance(v.elts[0].value, str) and v.elts[0].value in allattrs for v in n.values):
                    for v in n.values:
                        attr = v.elts[0].value
                        r = prog.resolve_expr(h, ex, v.elts[1]) if isinstance(v.elts[1], ast.Name) else None
                        got = "{}"
                        if r and r[0] == "func":
                            dom = UnitDomain(prog)
                            it = Interp(prog, dom)
                            g = r[1]
                            rr, ss = it.run_function(g, {g.posparams[0]: V(PLAIN)}, State())
                            got = show(dom._deep(it, rr, ss))
                        ncol += 1
                        exp = COLUMN_ORACLE.get(attr, ("{}", None))[0]
                        if got == exp:
                            ctx.ok("R1", f"extxyz title attribute `{attr}`: x {got}", f"{ex.relpath}:{v.lineno}")
                        else:
                            ctx.violate("R1", f"extxyz title attribute `{attr}` is loaded with unit factor `{got}`, expected `{exp}`", h, v, construct=f"title attr {attr}: {got}")
    ctx.floor("R1", ncol, 7, "column-table rows / title attributes")
    ctx.note(COLUMN_NOTES)

    # ------------------------------------------------------------------ R2
    ctx.rule("R2", "writers apply the inverse unit factor", "a writer prints bohr where the format prescribes angstrom (or converts twice)")
    ents = []
    for short in prog.format_modules():
        f = prog.format_op(short, "dump_one")
        if f is not None:
            ents.append((short, f, f.posparams[1]))
    for short, m in prog.input_modules().items():
        f = prog.funcs.get(f"{m.name}.write_input")
        if f is not None:
            ents.append((short, f, f.posparams[1]))
    nw = 0
    for short, f, dp in ents:
        dom = UnitDomain(prog, attr_sources={f.qualname: {dp}})
        it = Interp(prog, dom)
        try:
            it.run_function(f, {}, State())
        except AnalysisError as exc:
            raise AnalysisError(f"while analysing {f.qualname}: {exc}") from exc
        table = {}
        for func, node, tags, stack in dom.sinks:
            for tg in tags:
                for m in tg:
                    ats = [(k, v) for k, v in m if k.startswith("@")]
                    if len(ats) == 1 and ats[0][1] == 1:
                        resid = tuple((k, v) for k, v in m if not k.startswith("@"))
                        table.setdefault(ats[0][0][1:], set()).add((resid, getattr(node, "lineno", 0), func))
                    elif ats:
                        for k, v in m:
                            if not k.startswith("@") and k in UNIT_NAMES:
                                key = "*".join(f"{a[1:]}^{e}" for a, e in ats)
                                table.setdefault(key, set()).add((tuple((k2, v2) for k2, v2 in m if not k2.startswith("@")), getattr(node, "lineno", 0), func))
        want = WRITE_ORACLE.get(short, {})
        for attr in sorted(set(table) | set(want)):
            resids = {show(frozenset([r])) for r, _, _ in table.get(attr, set())}
            got = " | ".join(sorted(resids)) if resids else "<not written>"
            exp = want.get(attr, "{}")
            line = min((l for _, l, _ in table.get(attr, set())), default=f.lineno)
            if attr in want:
                nw += 1
            if got == exp:
                if attr in want:
                    ctx.ok("R2", f"{short} writes {attr} x {got}", f"{f.module.relpath}:{line}")
                else:
                    ctx.ok("R2", f"{short} writes {attr} unconverted (atomic units / no unit)", f"{f.module.relpath}:{line}", sample=False, nontrivial=False)
            elif got == "<not written>":
                ctx.violate("R2", f"{short} no longer writes `{attr}` (expected with factor `{exp}`)", f, f.node, construct=f"writer {attr}: not written")
            else:
                ctx.violate("R2", f"{short} writes `{attr}` multiplied by `{got}`, the format prescribes `{exp}`", f, f.node, construct=f"writer {attr}: {got} (expected {exp})")
    ctx.extra["writer_unit_sites"] = nw
    ctx.floor("R2", nw, 9, "writer unit sites")
    check_vasp_mode_switch(ctx)
    ctx.rule("R6", "Molden: the unit keyword of the [Atoms] line selects the coordinate factor (evaluated on every spelling)", "`[Atoms] (Angs)` coordinates are taken as bohr (or AU coordinates as angstrom): the geometry is off by 0.529 and the orbital check rejects a valid file")
    check_molden_atoms_unit(ctx, "R6")
    ctx.rule("R7", "VASP: cell and Cartesian positions carry scaling factor x angstrom, direct positions the cell's unit (header reader evaluated with a marker factor)", "the universal scaling factor or the angstrom factor dropped from one of the two: cell and positions in different units")
    from .c03 import check_vasp_header

    check_vasp_header(ctx, "R7")
    ctx.rule("R8", "GRO: time in picoseconds, positions and box in nanometers, velocities in nm/ps, whatever way the number is written (frame reader evaluated with marker factors)", "a time written with a sign or an exponent loaded as another number of picoseconds")
    from .c03 import check_gro_frame

    check_gro_frame(ctx, "R8")
    ctx.rule("R9", "cube files: lengths written in bohr come back as written; a file flagged as angstrom (negative point counts) is refused or converted, never taken as bohr (header writer / reader and the loader evaluated)", "an angstrom-flavoured cube file loads with every length off by 1.89")
    from .c02 import check_cube_header_pair

    check_cube_header_pair(ctx, "R9")
    ctx.rule("R10", "WFX: the gradient section is written as dE/dR in atomic units, as the reader takes it (no sign or role change on the way)", "forces written where gradients are read: the sign flips on every conversion to WFX")
    from .c02 import check_wfx_field_sources

    check_wfx_field_sources(ctx, "R10")
    ctx.rule("R5", "cell vectors and grid step vectors are scaled along the right axis", "each cell vector is multiplied by the point count of another axis: the loaded cell differs from the same system in another format")
    from .indexmaps import check_index_maps

    check_index_maps(ctx, "R5", ["cube_cellvecs", "vasp_axes", "extxyz_lattice", "vasp_direct"])
    ctx.floor("R5", ctx.rules["R5"]["obligations"], 2, "scaled-vector sites")


def unit_tables(prog, shorts):
    """{short: (reader {attr: tag}, writer {attr: set of residual monomials}, load_one, dump_one)} for sibling checks."""
    out = {}
    for short in shorts:
        lo, do = prog.format_op(short, "load_one"), prog.format_op(short, "dump_one")
        if lo is None or do is None:
            continue
        dom = UnitDomain(prog)
        it = Interp(prog, dom)
        ret, st = it.run_function(lo, {}, State())
        flat = {}
        if ret is not None:
            flatten(it, st, ret, "", flat)
        reader = {k.lstrip("."): v for k, v in flat.items() if k.count(".") == 1 and not k.endswith("*")}
        dp = do.posparams[1]
        dom2 = UnitDomain(prog, attr_sources={do.qualname: {dp}})
        it2 = Interp(prog, dom2)
        it2.run_function(do, {}, State())
        writer = {}
        for func, node, tags, stack in dom2.sinks:
            for tg in tags:
                for m in tg:
                    ats = [(k, v) for k, v in m if k.startswith("@")]
                    if len(ats) == 1 and ats[0][1] == 1:
                        writer.setdefault(ats[0][0][1:], set()).add(tuple((k, v) for k, v in m if not k.startswith("@")))
        out[short] = (reader, writer, lo, do)
    return out


# VASP manual, POSCAR: "the seventh line switches to selective dynamics (only the first character is relevant and must be
# S or s) ... the next line: only the first character is significant and the only key characters recognized are
# C, c, K or k for switching to the Cartesian mode" -- anything else means direct (fractional) coordinates.
VASP_CARTESIAN_KEYS = "CcKk"


def check_vasp_mode_switch(ctx, rid="R4"):
    """R4: which unit conversion a VASP file gets is decided by the documented key characters.

    The statements of the header reader that compute the Cartesian/direct switch are evaluated over the finite domain
    of first characters (letters and digits), with and without a selective-dynamics line in front.
    """
    import string

    from ..consteval import ConstEval, LineFeed, NotConstant, _Env, feed_next

    prog = ctx.prog
    ctx.rule(rid, "VASP files: Cartesian (angstrom) vs direct (fractional) coordinates are selected by the documented key characters", "a `Kartesian` (or `cart`, `Direct`) file is converted with the wrong formula: coordinates are off by the cell matrix")
    f = prog.func("iodata.formats.chgcar._load_vasp_header")
    # the header reader as a whole on model files: an orthogonal 2 x 3 x 4 cell (angstrom standing for 1000), one atom
    # at `0.5 0.5 0.5`; Cartesian reading gives (500, 500, 500), direct reading (1000, 1500, 2000) -- whichever
    # statements compute the switch, and wherever they stand
    import numpy as np

    from ..accessors import AccessorEval, Raised, Rec
    from ..symarr import NotSymbolic

    licls = prog.cls("iodata.utils.LineIterator")
    A = 1000.0
    chars = [c for c in string.ascii_letters + string.digits if c not in "Ss"]
    bad = []
    ncase = 0
    for c in chars:
        for pre in ([], ["Selective dynamics"], ["s"]):
            lines = ["model\n", "   1.0\n", " 2.0 0.0 0.0\n", " 0.0 3.0 0.0\n", " 0.0 0.0 4.0\n", " H\n", " 1\n"] + [p_ + "\n" for p_ in pre] + [c + "artesian coordinates\n", " 0.5 0.5 0.5\n", "\n"]
            feed = Rec(licls, filename="F", fh=iter(lines), lineno=0, stack=[])
            ev = AccessorEval(prog, licls, limit=4000)
            ev.module = f.module
            ev._globals = {("iodata.utils", "angstrom"): A}
            try:
                res = ev.run_free(f, [feed], {})
                pos = np.asarray(res[3], dtype=float).ravel()
            except Raised as exc:
                bad.append((c, pre, f"raises {exc.args[0]}", None))
                ncase += 1
                continue
            except (NotSymbolic, TypeError, ValueError, IndexError) as exc:
                raise AnalysisError(f"VASP header reader is outside the evaluation whitelist: {exc}") from exc
            ncase += 1
            if pos.shape == (3,) and np.abs(pos - 0.5 * A).max() < 1e-6:
                got = True
            elif pos.shape == (3,) and np.abs(pos - np.array([1.0, 1.5, 2.0]) * A).max() < 1e-6:
                got = False
            else:
                bad.append((c, pre, f"gives the position {pos.tolist()}", None))
                continue
            if got != (c in VASP_CARTESIAN_KEYS):
                bad.append((c, pre, "Cartesian" if got else "direct", got))
    if bad:
        c, pre, got, _g = bad[0]
        ctx.violate(rid, f"a coordinate-mode line starting with `{c}`" + (f" after a `{pre[0]}` line" if pre else "") + f" is read as {got}; VASP treats exactly the first characters C, c, K, k as Cartesian ({len(bad)} of {ncase} cases differ)", f, f.node, construct=f"vasp mode `{c}` -> {str(got).lower()}")
    else:
        ctx.ok(rid, f"{ncase} cases (first character of the mode line x optional selective-dynamics line), whole header reader on model files: Cartesian iff the line starts with one of `{VASP_CARTESIAN_KEYS}`", f"{f.module.relpath}:{f.lineno}")


# the unit keyword on the [Atoms] line of a Molden file: `[Atoms] (Angs|AU)` in the format description; programs write
# it with and without the parentheses and in any case
MOLDEN_ATOMS_LINES = {
    "[Atoms] AU": "au", "[Atoms] (AU)": "au", "[ATOMS] AU": "au", "[atoms] au": "au", "[Atoms]  AU  ": "au",
    "[Atoms] Angs": "angs", "[Atoms] (Angs)": "angs", "[ATOMS] ANGS": "angs", "[atoms] angs": "angs", "[Atoms]   (Angs) ": "angs",
}


def check_molden_atoms_unit(ctx, rid):
    """The unit factor handed to the Molden atom reader, evaluated for every spelling of the `[Atoms]` line."""
    import copy

    from ..accessors import AccessorEval, Raised
    from ..consteval import ConstEval, NotConstant
    from ..symarr import NotSymbolic

    prog = ctx.prog
    f = prog.func("iodata.formats.molden._load_low")
    ang = 1.8897261246257702  # stands for iodata.utils.angstrom (its value is R3's business); injected below
    branch = None
    for n in f.own_nodes():
        if isinstance(n, ast.If) and any(isinstance(x, ast.Constant) and x.value == "[atoms]" for x in ast.walk(n.test)):
            branch = n
    if branch is None:
        raise AnalysisError("molden._load_low: the [atoms] branch was not found")
    line_var = next((x.id for x in ast.walk(branch.test) if isinstance(x, ast.Name)), None)
    # the reader call and the factor argument
    call = None
    for st in branch.body:
        for x in ast.walk(st):
            if isinstance(x, ast.Call) and isinstance(x.func, ast.Name) and any(cs.node is x and cs.callees for cs in f.calls) and len(x.args) >= 2:
                call = (st, x)
    if call is None or line_var is None:
        raise AnalysisError("molden._load_low: the call of the atom reader in the [atoms] branch was not found")
    pre = branch.body[: branch.body.index(call[0])]
    # how the section loop normalises a line
    norm = None
    for n in f.own_nodes():
        if isinstance(n, ast.Assign) and len(n.targets) == 1 and isinstance(n.targets[0], ast.Name) and n.targets[0].id == line_var and any(isinstance(x, ast.Call) and isinstance(x.func, ast.Name) and x.func.id == "next" for x in ast.walk(n.value)):
            norm = n.value
    bad = []
    for raw, unit in MOLDEN_ATOMS_LINES.items():
        ev = AccessorEval(prog, None)
        ev.module = f.module
        ev._globals = {("iodata.utils", "angstrom"): ang}
        text = raw
        try:
            if norm is not None:
                class _Sub(ast.NodeTransformer):
                    def visit_Call(self, node):
                        if isinstance(node.func, ast.Name) and node.func.id == "next":
                            return ast.Constant(raw + "\n")
                        return self.generic_visit(node)

                text = ev._eval(ast.fix_missing_locations(_Sub().visit(copy.deepcopy(norm))), {})
            local = {line_var: text}
            if not ev._eval(branch.test, local):
                bad.append((raw, "is not recognised as the [Atoms] line"))
                continue
            ev._block(pre, local)
            got = ev._eval(call[1].args[1], local)
        except Raised as exc:
            bad.append((raw, f"raises {exc.args[0]}"))
            continue
        except KeyError as exc:
            bad.append((raw, f"leaves the unit factor `{exc.args[0]}` unset (the factor of an earlier section, or an UnboundLocalError, is used)"))
            continue
        except NotSymbolic as exc:
            if "unbound" in str(exc) or "name" in str(exc):
                bad.append((raw, f"leaves the unit factor unset ({exc})"))
                continue
            raise AnalysisError(f"molden [atoms] branch is outside the evaluation whitelist: {exc}") from exc
        want = ang if unit == "angs" else 1.0
        if not (isinstance(got, (int, float)) and abs(float(got) - want) <= 1e-15 * want):
            bad.append((raw, f"gets the factor {got!r}, expected {'angstrom' if unit == 'angs' else '1 (atomic units)'}"))
    if bad:
        raw, why = bad[0]
        ctx.violate(rid, f"Molden `{raw.strip()}` {why} ({len(bad)} of {len(MOLDEN_ATOMS_LINES)} spellings differ)", f, branch, construct=f"molden [Atoms] unit: {raw.strip()!r} {why}"[:170])
    else:
        ctx.ok(rid, f"Molden [Atoms] line: {len(MOLDEN_ATOMS_LINES)} spellings (AU / Angs, with and without parentheses, any case) select 1 / angstrom", f"{f.module.relpath}:{branch.lineno}")
