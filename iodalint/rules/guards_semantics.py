"""prepare_dump of the five wavefunction writers, evaluated on abstract objects (semantic guard matrix).

For every format and every object of a small domain the outcome of prepare_dump(data, allow_changes, file) is
classified as  E (an error is raised: the API reports PrepareDumpError before the file is opened),
P (the very same object comes back) or C (a converted copy comes back, after a warning) and compared with the
documented capabilities of the format (DESIGN.md Appendix C).
"""

from __future__ import annotations

import numpy as np

from .. import AnalysisError
from ..accessors import AccessorEval, Raised, Rec
from ..symarr import NotSymbolic, sym_array

# outcome for allow_changes=False / allow_changes=True
E, P, C = "error", "same object", "converted copy"
EXPECT = {
    # case:                         fchk        molden      molekel     wfn         wfx
    "plain restricted":            ((P, P),     (P, P),     (P, P),     (P, P),     (P, P)),
    "plain unrestricted":          ((P, P),     (P, P),     (P, P),     (P, P),     (P, P)),
    # a legal basis whose shells are not grouped atom by atom needs no conversion in any format: an object that is
    # re-ordered for writing must be announced like every other conversion (and never without allow_changes)
    "shells of the second atom listed first": ((P, P), (P, P), (P, P),    (P, P),     (P, P)),
    # "declared": an object lacking the attribute is refused (E) iff the writer declares it as required; otherwise the
    # writer has to accept it (P) -- objects carrying everything the documentation requires must not be refused
    "no orbitals":                 ("mo",       "mo",       "mo",       "mo",       "mo"),
    "no basis":                    ("obasis",   "obasis",   "obasis",   "obasis",   "obasis"),
    "generalized orbitals":        ((E, E),     (E, E),     (E, E),     (E, E),     (E, E)),
    "ROHF, hole below":            ((E, E),     (P, P),     (P, P),     (P, P),     (P, P)),
    "fractional occupations":      ((E, E),     (P, P),     (P, P),     (P, P),     (P, P)),
    "unrestricted, beta hole":     ((E, E),     (P, P),     (P, P),     (P, P),     (P, P)),
    "unrestricted, alpha hole":    ((E, E),     (P, P),     (P, P),     (P, P),     (P, P)),
    "explicit occs_aminusb":       (None,       (E, C),     (E, C),     (E, C),     (E, C)),
    "pure d shell":                ((P, P),     (P, P),     (P, P),     (E, E),     (E, E)),
    "SP shell":                    ((P, P),     (E, C),     (E, C),     (E, C),     (E, C)),
    "SS generalized contraction":  ((E, C),     (E, C),     (E, C),     (E, C),     (E, C)),
    "PD shell, Cartesian p + pure d": ((E, C),   (E, C),     (E, C),     (E, E),     (E, E)),
    # without orbitals (where the writer accepts that) the basis still has to fit the format
    "no orbitals, SS generalized contraction": (("mo", (E, C)), ("mo", (E, C)), ("mo", (E, C)), ("mo", (E, C)), ("mo", (E, C))),
    "no orbitals, SP shell":       (("mo", (P, P)), ("mo", (E, C)), ("mo", (E, C)), ("mo", (E, C)), ("mo", (E, C))),
    # effective core charges: FCHK, Molden and WFX store them; WFN drops them; the Molekel reader derives the electron
    # count from the atomic numbers in $COORD and the charge, so a file written for such an object is rejected by it
    "ECP centre (atcorenums != atnums)": ((P, P), (P, P),     (E, E),     (P, P),     (P, P)),
    # a ghost centre keeps its atomic number and has core charge zero: the same contradiction for the Molekel reader
    "ghost centre (atcorenums 0, atnums kept)": ((P, P), (P, P), (E, E),     (P, P),     (P, P)),
}
FORMATS = ("fchk", "molden", "molekel", "wfn", "wfx")
WHY = {
    "ECP centre (atcorenums != atnums)": "the Molekel reader computes the electron count as the sum of the atomic numbers minus the charge: with effective core charges the written occupations contradict it and the file is rejected",
    "ghost centre (atcorenums 0, atnums kept)": "a ghost centre written with its atomic number counts as a nucleus for the Molekel reader: the electron count it derives contradicts the written occupations and the file is rejected",
    "shells of the second atom listed first": "the order of the shells is free in every format's object model; nothing has to be converted",
    "no orbitals, SS generalized contraction": "no format stores general contractions, with or without orbitals",
    "no orbitals, SP shell": "only FCHK can store SP shells, with or without orbitals",
    "ROHF, hole below": "FCHK stores electron counts, not occupations: only aufbau occupations (alpha AND beta) can be represented",
    "fractional occupations": "FCHK cannot represent fractional occupations",
    "unrestricted, beta hole": "FCHK: the beta occupations must be aufbau as well",
    "unrestricted, alpha hole": "FCHK: the alpha occupations must be aufbau",
    "pure d shell": "WFN / WFX primitives are Cartesian only",
    "PD shell, Cartesian p + pure d": "WFN / WFX primitives are Cartesian only, also when the pure contraction is not the first of its shell",
    "SP shell": "only FCHK can store SP shells; the others need segmented shells",
    "SS generalized contraction": "no format stores general contractions",
    "explicit occs_aminusb": "no format stores alpha-minus-beta occupations of restricted orbitals: they are written as unrestricted orbitals",
}


def _objects(prog):
    mo_cls = prog.cls("iodata.orbitals.MolecularOrbitals")
    shell_cls = prog.cls("iodata.basis.Shell")
    basis_cls = prog.cls("iodata.basis.MolecularBasis")
    iocls = prog.cls("iodata.iodata.IOData")

    def shell(ls, ks):
        return Rec(shell_cls, icenter=0, angmoms=np.array(ls), kinds=list(ks), exponents=sym_array("a", (2,)), coeffs=sym_array("k", (2, len(ls))))

    def basis(*shells):
        return Rec(basis_cls, shells=list(shells), conventions={}, primitive_normalization="L2")

    def mo(kind="restricted", occs=(2.0, 2.0, 0.0), aminusb=None):
        n = len(occs)
        na = n if kind == "restricted" else n // 2
        return Rec(mo_cls, kind=kind, norba=(None if kind == "generalized" else na), norbb=(None if kind == "generalized" else na), occs=np.array(occs, dtype=float), coeffs=sym_array("c", (2, n)), energies=None, irreps=None, occs_aminusb=(None if aminusb is None else np.array(aminusb, dtype=float)))

    def _on(sh_, icenter):
        sh_.fields["icenter"] = icenter
        return sh_

    plain_basis = lambda: basis(shell([0], ["c"]), shell([2], ["c"]))
    def mk(**kw):
        # every stored field of IOData: None, dictionaries empty (their documented type), unless the case says otherwise
        f = {name: ({} if name in ("extra", "atcharges", "atffparams", "moments", "one_ints", "two_ints", "one_rdms", "two_rdms") else None) for name in iocls.fields}
        f.update({"mo": mo(), "obasis": plain_basis(), "atnums": np.array([8, 1]), "_atcorenums": np.array([8.0, 1.0])})
        f.update(kw)
        # the orbital coefficients have one row per basis function of the basis the case uses
        if isinstance(f.get("mo"), Rec) and isinstance(f.get("obasis"), Rec) and f["mo"].fields.get("coeffs") is not None:
            nb = 0
            for sh_ in f["obasis"].fields["shells"]:
                for l_, k_ in zip(np.asarray(sh_.fields["angmoms"]).tolist(), sh_.fields["kinds"]):
                    nb += (l_ + 1) * (l_ + 2) // 2 if k_ == "c" else 2 * l_ + 1
            f["mo"].fields["coeffs"] = sym_array("c", (nb, f["mo"].fields["coeffs"].shape[1]))
        return Rec(iocls, **f)
    return {
        "plain restricted": lambda: mk(),
        "plain unrestricted": lambda: mk(mo=mo("unrestricted", (1.0, 1.0, 0.0, 1.0, 0.0, 0.0))),
        "shells of the second atom listed first": lambda: mk(obasis=basis(_on(shell([0], ["c"]), 1), _on(shell([0], ["c"]), 0), _on(shell([2], ["c"]), 1))),
        "no orbitals": lambda: mk(mo=None),
        "no basis": lambda: mk(obasis=None),
        "generalized orbitals": lambda: mk(mo=mo("generalized", (1.0, 1.0, 0.0, 0.0))),
        "ROHF, hole below": lambda: mk(mo=mo(occs=(2.0, 1.0, 2.0, 0.0))),
        "fractional occupations": lambda: mk(mo=mo(occs=(1.8, 0.2, 0.0))),
        "unrestricted, beta hole": lambda: mk(mo=mo("unrestricted", (1.0, 1.0, 0.0, 0.0, 1.0, 0.0))),
        "unrestricted, alpha hole": lambda: mk(mo=mo("unrestricted", (1.0, 0.0, 1.0, 1.0, 0.0, 0.0))),
        "explicit occs_aminusb": lambda: mk(mo=mo(occs=(2.0, 1.0, 0.0), aminusb=(0.0, 1.0, 0.0))),
        "pure d shell": lambda: mk(obasis=basis(shell([0], ["c"]), shell([2], ["p"]))),
        "SP shell": lambda: mk(obasis=basis(shell([0, 1], ["c", "c"]))),
        "SS generalized contraction": lambda: mk(obasis=basis(shell([0, 0], ["c", "c"]))),
        "PD shell, Cartesian p + pure d": lambda: mk(obasis=basis(shell([1, 2], ["c", "p"]))),
        "no orbitals, SS generalized contraction": lambda: mk(mo=None, obasis=basis(shell([0, 0], ["c", "c"]))),
        "no orbitals, SP shell": lambda: mk(mo=None, obasis=basis(shell([0, 1], ["c", "c"]))),
        "ECP centre (atcorenums != atnums)": lambda: mk(_atcorenums=np.array([6.0, 1.0])),
        "ghost centre (atcorenums 0, atnums kept)": lambda: mk(_atcorenums=np.array([8.0, 0.0])),
    }


def check_guard_semantics(ctx, rid):
    prog = ctx.prog
    mo_cls = prog.cls("iodata.orbitals.MolecularOrbitals")
    objs = _objects(prog)
    ncell = 0
    from ..consteval import ConstEval
    from .c17 import declared_lists

    required = {}
    for mod, f_, dname, lists, dnode, fmt in declared_lists(prog, ConstEval(prog)):
        if f_.name == "dump_one":
            required[mod.short] = set(lists.get("required", []))
    try:
        for fi, short in enumerate(FORMATS):
            g = prog.format_op(short, "prepare_dump")
            if g is None:
                ctx.violate(rid, f"{short} has no prepare_dump although it writes wavefunctions", relpath=f"iodata/formats/{short}.py", function=f"iodata.formats.{short}", construct="prepare_dump missing")
                continue
            bad = []
            for case, row in EXPECT.items():
                want = row[fi]
                if want is None:
                    continue
                declared_case = isinstance(want, str)
                if declared_case:
                    want = (E, E) if want in required.get(short, set()) else (P, P)
                elif isinstance(want[1], tuple):
                    # (attribute, outcome when the writer accepts objects without that attribute)
                    want = (E, E) if want[0] in required.get(short, set()) else want[1]
                for ai, allow in enumerate((False, True)):
                    data = objs[case]()
                    ev = AccessorEval(prog, mo_cls, limit=4000)
                    ev.module = g.module
                    ev.warnings = 0
                    try:
                        r = ev.run_free(g, [data, allow, "file"], {})
                        got = P if r is data else (C if isinstance(r, Rec) else f"returns {r!r}")
                        if got == C and ev.warnings == 0:
                            got = "converted copy without a warning"
                    except Raised as exc:
                        got = E
                    ncell += 1
                    if got != want[ai]:
                        bad.append((case, allow, got, want[ai] + (f" ({short}.dump_one declares {sorted(required.get(short, []))} as required" + ("" if want[ai] == E else f": `{row[fi]}` is optional, so an object without it must be accepted") + ")" if declared_case else "")))
            if bad:
                for case, allow, got, want in bad[:4]:
                    ctx.violate(rid, f"{short}.prepare_dump, {case}, allow_changes={allow}: {got}, expected {want}" + (f" ({WHY[case]})" if case in WHY else ""), g, g.node, construct=f"{short} prepare_dump {case} allow={allow}: {got}")
            else:
                ctx.ok(rid, f"{short}.prepare_dump evaluated on {sum(1 for c_, row in EXPECT.items() if row[fi] is not None)} abstract objects x allow_changes: every outcome (error / same object / warned conversion) is the documented one", f"{g.module.relpath}:{g.lineno}")
    except NotSymbolic as exc:
        raise AnalysisError(f"a prepare_dump routine is outside the accessor-evaluation whitelist: {exc}") from exc
    ctx.floor(rid, ncell, 100, "format x object x allow_changes evaluations")
