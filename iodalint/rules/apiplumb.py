"""Plumbing of the dump entry points of iodata.api, decided by binding call arguments and following definitions.

* what is written and returned is the value `prepare_dump` returned (the conversion is not dropped);
* `prepare_dump` receives the object, the caller's `allow_changes` and the file name; `allow_changes` defaults to False;
* `_check_required` consults the declared list of the operation that is going to write (dump_one / dump_many)."""

from __future__ import annotations

import ast

from .. import AnalysisError
from ..astutil import bind_call, deref
from ..model import src_of


def _calls_attr(f, attr):
    """Calls of the registry slot `attr`: `format_module.<attr>(...)`, also through a local bound to the slot."""
    out = [n for n in f.own_nodes() if isinstance(n, ast.Call) and isinstance(n.func, ast.Attribute) and n.func.attr == attr]
    for cs in f.calls:
        if getattr(cs, "registry_op", None) == attr and cs.node not in out:
            out.append(cs.node)
    return out


def _prepare_sites(prog, f, depth=0):
    """Call nodes in `f` whose value is what prepare_dump returned: direct calls, and calls of helpers of the API module
    all of whose returns are either the value of a prepare site or (on paths without conversion) a parameter."""
    sites = list(_calls_attr(f, "prepare_dump"))
    if depth > 2:
        return sites
    for cs in f.calls:
        for h in cs.callees:
            if h.module is not f.module or h is f or h.parent is not None or h.is_generator or h.name in ("_check_required", "_select_format_module"):
                continue
            inner = _prepare_sites(prog, h, depth + 1)
            if not inner:
                continue
            pmh = prog.parents(h)
            okh = True
            for r in [x for x in h.own_nodes() if isinstance(x, ast.Return)]:
                v = r.value
                if v is None:
                    okh = False
                elif any(v is c or any(y is c for y in ast.walk(v)) for c in inner):
                    continue
                elif isinstance(v, ast.Name) and (v.id in h.posparams or any(isinstance(pmh.get(id(c)), ast.Assign) and any(isinstance(t, ast.Name) and t.id == v.id for t in pmh[id(c)].targets) for c in inner)):
                    continue
                else:
                    okh = False
            if okh and cs.node not in sites:
                sites.append(cs.node)
    return sites


def check_prepared_object_used(ctx, rid):
    """C09 / C01: the object handed to the writer (and returned) is the one prepare_dump returned."""
    prog = ctx.prog
    d1 = prog.func("iodata.api.dump_one")
    pm = prog.parents(d1)
    pcalls = _prepare_sites(prog, d1)
    wcalls = _calls_attr(d1, "dump_one")
    if len(pcalls) != 1 or len(wcalls) != 1:
        raise AnalysisError(f"api.dump_one: expected one prepare_dump and one format dump_one call (found {len(pcalls)}, {len(wcalls)})")
    par = pm.get(id(pcalls[0]))
    written = wcalls[0].args[1] if len(wcalls[0].args) > 1 else None
    rets = [n for n in d1.own_nodes() if isinstance(n, ast.Return) and n.value is not None]
    if not (isinstance(par, ast.Assign) and len(par.targets) == 1 and isinstance(par.targets[0], ast.Name)):
        ctx.violate(rid, "api.dump_one does not keep the object returned by prepare_dump: with allow_changes=True the warning announces a conversion, but the unconverted object is written and returned", d1, pcalls[0])
    else:
        name = par.targets[0].id
        # no other assignment to that name between the preparation and the write / return
        later = [n for n in d1.own_nodes() if isinstance(n, ast.Assign) and n is not par and any(isinstance(t, ast.Name) and t.id == name for t in n.targets) and n.lineno > par.lineno]
        if not (isinstance(written, ast.Name) and written.id == name) or later:
            ctx.violate(rid, f"api.dump_one writes `{src_of(written) if written is not None else None}` while the prepared object is `{name}`" + (f" (re-assigned at line {later[0].lineno})" if later else ""), d1, wcalls[0])
        elif not rets or any(not (isinstance(r.value, ast.Name) and r.value.id == name) for r in rets):
            ctx.violate(rid, f"api.dump_one returns `{src_of(rets[0].value) if rets else None}`, not the prepared (written) object `{name}`", d1, rets[0] if rets else d1.node)
        else:
            ctx.ok(rid, f"api.dump_one: the value of prepare_dump is bound to `{name}`, which is what is written and returned", f"{d1.module.relpath}:{par.lineno}")
    dm = prog.func("iodata.api.dump_many")
    funcs = [dm] + list(dm.nested.values())
    nprep = 0
    for g in funcs:
        pmg = prog.parents(g)
        for c in _prepare_sites(prog, g):
            nprep += 1
            cur = c
            used = False
            while id(cur) in pmg:
                p_ = pmg[id(cur)]
                if isinstance(p_, ast.Assign) and len(p_.targets) == 1 and isinstance(p_.targets[0], ast.Name):
                    # the first frame: the name must be what the checking iterator yields first
                    nm = p_.targets[0].id
                    used = any(isinstance(y, ast.Yield) and isinstance(y.value, ast.Name) and y.value.id == nm for h in funcs for y in h.own_nodes())
                    break
                if isinstance(p_, (ast.Yield, ast.Return)):
                    used = True
                    break
                if isinstance(p_, ast.stmt):
                    break
                cur = p_
            if used:
                ctx.ok(rid, f"api.dump_many: the value of prepare_dump (line {c.lineno}) is what the writer receives", f"{g.module.relpath}:{c.lineno}")
            else:
                ctx.violate(rid, "api.dump_many does not hand the object returned by prepare_dump to the writer", g, c)
    if nprep < 2:
        raise AnalysisError(f"api.dump_many: expected prepare_dump for the first and for later frames, found {nprep} call(s)")


def check_prepare_arguments(ctx, rid):
    """prepare_dump(<object>, allow_changes, filename) with the API's own parameters; allow_changes defaults to False."""
    prog = ctx.prog
    for q in ("iodata.api.dump_one", "iodata.api.dump_many"):
        f = prog.func(q)
        d = f.default_of("allow_changes")
        if not (isinstance(d, ast.Constant) and d.value is False):
            ctx.violate(rid, f"{f.name}: `allow_changes` defaults to `{src_of(d) if d is not None else '<no default>'}`: objects are converted silently unless the caller forbids it", f, f.node, construct=f"{f.name} allow_changes default")
        else:
            ctx.ok(rid, f"{f.name}: allow_changes defaults to False", f.where)
        scope = [f] + list(f.nested.values())
        for g0 in list(scope):
            for cs in g0.calls:
                for h in cs.callees:
                    if h.module is f.module and h not in scope and _calls_attr(h, "prepare_dump"):
                        # a helper that prepares: the API must hand it its own allow_changes and filename
                        b, _e, okb = bind_call(cs.node, h)
                        for pn in ("allow_changes", "filename"):
                            if pn in h.posparams and not (isinstance(b.get(pn), ast.Name) and b[pn].id == pn):
                                ctx.violate(rid, f"{f.name} calls {h.name} with `{pn}={src_of(b.get(pn)) if b.get(pn) is not None else None}`: the caller's `{pn}` must be passed as it is", g0, cs.node)
                        scope.append(h)
        for g in scope:
            for c in _calls_attr(g, "prepare_dump"):
                a = [src_of(x) for x in c.args] + [f"{k.arg}={src_of(k.value)}" for k in c.keywords]
                ok = len(c.args) == 3 and not c.keywords and isinstance(c.args[0], ast.Name) and a[1] == "allow_changes" and a[2] == "filename"
                if ok:
                    ctx.ok(rid, f"{f.name}: prepare_dump({', '.join(a)})", f"{g.module.relpath}:{c.lineno}")
                else:
                    ctx.violate(rid, f"{f.name} calls prepare_dump({', '.join(a)}): the caller's `allow_changes` and `filename` must be passed as they are", g, c)


def check_required_operation(ctx, rid):
    """_check_required consults the `required` list of the operation that is going to write."""
    prog = ctx.prog
    cr = prog.funcs.get("iodata.api._check_required")
    if cr is None:
        raise AnalysisError("api._check_required not found")
    n = 0
    for q, op in (("iodata.api.dump_one", "dump_one"), ("iodata.api.dump_many", "dump_many")):
        f = prog.func(q)
        scope = [(g, None, None) for g in [f] + list(f.nested.values())]
        # helpers of the API module that perform the check on behalf of this entry point, with the call that reaches them
        for g0 in [f] + list(f.nested.values()):
            for cs0 in g0.calls:
                for h in cs0.callees:
                    if h.module is f.module and h.parent is None and h is not cr and any(cr in c2.callees for c2 in h.calls):
                        scope.append((h, g0, cs0.node))
        for g, via_f, via_call in scope:
            for cs in g.calls:
                if cr not in cs.callees:
                    continue
                n += 1
                c = cs.node
                third = c.args[2] if len(c.args) > 2 else next((k.value for k in c.keywords if k.arg == cr.posparams[2]), None)
                if isinstance(third, ast.Name):
                    third = deref(g, third)  # a local holding `format_module.<operation>`
                good = isinstance(third, ast.Attribute) and third.attr == op and isinstance(third.value, ast.Name)
                if not good and via_call is not None and isinstance(third, ast.Call) and isinstance(third.func, ast.Name) and third.func.id == "getattr" and len(third.args) == 2 and isinstance(third.args[1], ast.Name):
                    # getattr(format_module, attrname) in a helper: the entry point must bind attrname to its own operation
                    b, _e, _ok = bind_call(via_call, g)
                    v = b.get(third.args[1].id)
                    good = isinstance(v, ast.Constant) and v.value == op
                if good:
                    ctx.ok(rid, f"{f.name}: required attributes are those declared by the module's {op}", f"{g.module.relpath}:{c.lineno}")
                else:
                    ctx.violate(rid, f"{f.name} checks the required attributes of `{src_of(third) if third is not None else None}`, but the file is written by the module's {op}", g, c)
    ctx.floor(rid, n, 3, "_check_required call sites")


def check_many_required(ctx, rid):
    """A dump_many that writes its frames through the module's dump_one declares every attribute dump_one requires
    (the API checks each frame against dump_many's list only)."""
    from ..consteval import ConstEval
    from .c17 import declared_lists

    prog = ctx.prog
    req = {}
    for mod, f_, dname, lists, dnode, fmt in declared_lists(prog, ConstEval(prog)):
        if f_.name in ("dump_one", "dump_many"):
            req[(mod.short, f_.name)] = (set(lists.get("required", [])), f_)
    n = 0
    for (short, op), (many_req, fm) in sorted(req.items()):
        if op != "dump_many":
            continue
        one = req.get((short, "dump_one"))
        if one is None:
            continue
        one_req, f1 = one
        if not any(f1 in cs.callees for cs in fm.calls):
            continue
        n += 1
        missing = sorted(one_req - many_req)
        if missing:
            ctx.violate(rid, f"{short}.dump_many writes each frame with dump_one, which requires {sorted(one_req)}, but declares only {sorted(many_req)} as required: a frame without {missing} passes the pre-flight and fails (or is mis-written) after the file was opened", fm, fm.node, construct=f"{short}.dump_many required lacks {missing}")
        else:
            ctx.ok(rid, f"{short}.dump_many declares everything its dump_one requires ({sorted(one_req)})", f"{fm.module.relpath}:{fm.lineno}")
    ctx.floor(rid, n, 3, "dump_many writers built on dump_one")


def check_prepare_error_sources(ctx, rid):
    """PrepareDumpError promises "nothing was written": it may only be raised before the file is opened, i.e. by
    `_check_required`, a module's `prepare_dump` and the `prepare_*` helpers -- never by code a writer reaches."""
    from ..astutil import raises_class

    prog = ctx.prog
    n = 0
    for short, m in sorted(prog.format_modules().items()):
        roots = [g for g in (prog.funcs.get(f"{m.name}.dump_one"), prog.funcs.get(f"{m.name}.dump_many")) if g is not None]
        if not roots:
            continue
        pd = prog.funcs.get(f"{m.name}.prepare_dump")
        pre = set(prog.callees_closure([pd])) | {pd} if pd is not None else set()
        for g in set(prog.callees_closure(roots)) | set(roots):
            if g in pre or not g.module.name.startswith("iodata."):
                continue
            n += 1
            for r in [x for x in g.own_nodes() if isinstance(x, ast.Raise)]:
                if raises_class(r) == "PrepareDumpError":
                    ctx.violate(rid, f"{g.qualname} (reached from the {short} writer) raises PrepareDumpError: at that point the output file is already open (truncated), while this error class promises that nothing was written", g, r)
    ctx.ok(rid, f"no function reached from a writer raises PrepareDumpError ({n} functions)", "iodata/formats")
    ctx.floor(rid, n, 20, "functions reached from writers")
