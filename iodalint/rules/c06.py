"""C06 -- overlap matrices: Cartesian-to-pure tables (exhaustive algebra) and the
guard / convention / segmentation structure of compute_overlap."""

from __future__ import annotations

import ast
import math

import numpy as np

from .. import AnalysisError
from ..astutil import bind_call, deref, names_in, raises_class, single_def, walk_stmts
from ..cfg import ENTRY, cfg_of
from ..consteval import ConstEval, NotConstant
from ..model import src_of
from ..tables import cart_labels

PROP = "C06"
LEVEL = "other"
TECHNIQUE = "static analysis: exact table algebra on the Cartesian-to-pure literals (orthonormality, harmonicity, L_z^2 eigenvalue, parity, sign) + CFG dominance / def-use rules on compute_overlap"
EXPLANATION = (
    "Static decision of the structural clauses of C06: (R1) each literal tf0..tf7 of overlap_cartpure.py, "
    "read from the AST, has shape (2l+1) x (l+1)(l+2)/2, is orthonormal w.r.t. the closed-form Gram matrix "
    "of normalised Cartesian monomials (T G T^T = I), every row is harmonic, is an eigenfunction of L_z^2 "
    "with eigenvalue m^2, has the y-parity of its cos/sin label, the documented leading-term sign, and rows "
    "are in HORTON2 order c0,c1,s1,...: this pins every entry of the tables; (R2) the L2 guards dominate all "
    "computation for the first basis and all uses of the second, missing/superfluous second geometry raises "
    "TypeError; (R3) rows/columns are indexed and scaled with convert_conventions(obasis, "
    "HORTON2_CONVENTIONS, reverse=True) of the matching basis; (R4) both bases are segmented before any "
    "angmoms[0]/kinds[0] access; (R5) the transposed store is control-dependent on the one-basis flag; (R6) "
    "screening constants are literals <= 1e-15.  Declined: the 1-D binomial kernel, primitive normalisation, "
    "assembly arithmetic, positive semidefiniteness, translation invariance (numerical identities)."
)
TECHNIQUE += '; def-use check of the screening bound'
EXPLANATION += " Added to R6: the shell-pair screening bound is computed from a min-reduction over each shell's exponents (the bound must dominate every primitive pair)."
TECHNIQUE += '; guard enumeration on the shell-pair loops'
EXPLANATION += ' Added: (R7) a shell-pair block is stored under no other condition than the screening comparison and the one-basis symmetry flag; no continue/break leaves a shell-pair iteration; the screening quantity is assigned once before its test.'
TECHNIQUE += '; symbolic evaluation of the convention conversion after the shell loops'
EXPLANATION += ' R3 no longer matches statements: the part of compute_overlap after the shell loops is interpreted on a symbolic 3x3 matrix with stubbed convert_conventions results (distinct permutations and symbolic signs per basis, one- and two-basis call), the returned matrix must be signs_row[i]*signs_col[j]*internal[perm_row[i], perm_col[j]] and convert_conventions must be called with HORTON2_CONVENTIONS and reverse=True.'
TRUSTED = ["CPython ast parser", "closed-form Gaussian moment integrals (double factorials)", "uniqueness of the harmonic polynomial with given (l, |m|, y-parity) up to scale"]

TOL = 1e-12
EXPLANATION += ' (R8) compute_overlap segments its input with a convert_to_segmented that, evaluated on abstract shells, keeps every contraction in order, so rows / columns correspond to the basis functions of the given basis.'
TECHNIQUE += '; accessor evaluation of the segmentation'
# --- metadata added for batch 7
TECHNIQUE += '; symbolic evaluation of the 1-D kernel recurrence, of the normalisation identity and of the tail conversion; two-call evaluation for remembered results'
EXPLANATION += ' Added: (R8) also a second call of convert_to_segmented on the same basis object after its shells / conventions were edited in place must give the result for the edited basis (module state of the first call kept by the evaluator); (R9) the quantity compared with the screening threshold is the bare pair exponential; (R10) centres enter through differences only; (R11) the 1-D kernel satisfies its recurrence and symmetry for n <= 5 on symbols; (R12) normalisation constants x prefactor x kernel give unit self-overlap for every Cartesian function up to l = 3.'
# --- end metadata batch 7
# --- metadata added for batch 8
TECHNIQUE += '; backward slice evaluation of the table sizing'
EXPLANATION += ' Added: (R13) the statements that size the kernel tables (a backward slice from the GaussianOverlap constructor call) evaluated on two bases of different height in both orders. R11 runs to n1, n2 <= 7 as the property quantifies, compares polynomials up to rounding of numeric constants (a kernel by quadrature with enough points passes, one point too few fails at S(7, 7)) and evaluates class-level attributes.'
# --- end metadata batch 8
# --- metadata added after the round-2 refactoring twins
TECHNIQUE += '; whole-function abstract interpretation of compute_overlap on model bases (decision table of the guards, metamorphic relations)'
EXPLANATION += ' R2, R4 and R5 no longer read the statements of compute_overlap: the function is interpreted as a whole (iodalint.accessors; scipy binom / factorial2 as exact stubs, the Cartesian-to-pure tables those decided by R1) on small model bases without symmetry. R2 is the decision table over (normalisation of either basis, second basis given, second geometry given); R5 is: one basis gives a symmetric matrix, equal to the two-basis call with the same basis, and exchanging two different bases transposes the matrix; R4 is: a basis with an SP shell and a (pure d, p) shell gives the matrix of its segmented form, as only, first or second basis. Added (R14): unit diagonal for normalised functions, the closed-form s-s element, no empty off-diagonal block for a geometry without symmetry, translation invariance, and a change of conventions permutes / sign-flips rows and columns as the labels say. These relations hold for any correct implementation, however it is organised (dispatch in a helper, other loop shapes); they decide the model bases only -- the quantifier over all bases is reached through R1, R6-R13, which decide the pieces for all arguments.'
# --- end metadata round-2 twins
# --- metadata added after the round-3 refactoring twins
TECHNIQUE += '; interprocedural scope for the screening / weight rules'
EXPLANATION += ' R1, R6, R9 and R10 work on compute_overlap and the plain helper functions of its module it reaches (a primitive-pair or shell-pair loop moved into a helper is still the assembly); the translation weights are propagated through those calls.'
# --- end metadata round-3 twins
# --- metadata added for batch 9
EXPLANATION += ' R5 also: the same basis object given twice with two geometries is a two-basis call. R14 also: integer-typed centres give the float matrix; a shell changed in place after a first call is seen as it is now.'
# --- end metadata batch 9


def df(n):
    """Double factorial with (-1)!! = 1."""
    r = 1
    while n > 1:
        r *= n
        n -= 2
    return r


def monomials(l):
    out = []
    for nx in range(l, -1, -1):
        for ny in range(l - nx, -1, -1):
            out.append((nx, ny, l - nx - ny))
    return out


def _poly_add(p, key, c):
    if c != 0.0:
        p[key] = p.get(key, 0.0) + c


def laplacian(p):
    out = {}
    for (a, b, c), v in p.items():
        if a >= 2:
            _poly_add(out, (a - 2, b, c), v * a * (a - 1))
        if b >= 2:
            _poly_add(out, (a, b - 2, c), v * b * (b - 1))
        if c >= 2:
            _poly_add(out, (a, b, c - 2), v * c * (c - 1))
    return out


def lz(p):
    """(x d/dy - y d/dx) applied to a polynomial."""
    out = {}
    for (a, b, c), v in p.items():
        if b >= 1:
            _poly_add(out, (a + 1, b - 1, c), v * b)
        if a >= 1:
            _poly_add(out, (a - 1, b + 1, c), -v * a)
    return out


def check_tf(l, T, report_ok, report_bad):
    mons = monomials(l)
    ncart = len(mons)
    npure = 2 * l + 1
    if len(T) != npure or any(len(r) != ncart for r in T):
        report_bad(None, f"tf{l} has shape {len(T)}x{[len(r) for r in T][:1]}, expected {npure}x{ncart}")
        return
    T = [[float(x) for x in r] for r in T]
    norm = [1.0 / math.sqrt(df(2 * a - 1) * df(2 * b - 1) * df(2 * c - 1)) for a, b, c in mons]
    G = [[0.0] * ncart for _ in range(ncart)]
    for i, (a, b, c) in enumerate(mons):
        for j, (a2, b2, c2) in enumerate(mons):
            if (a + a2) % 2 == 0 and (b + b2) % 2 == 0 and (c + c2) % 2 == 0:
                G[i][j] = df(a + a2 - 1) * df(b + b2 - 1) * df(c + c2 - 1) * norm[i] * norm[j]
    # T G T^T = I
    TG = [[sum(T[r][k] * G[k][j] for k in range(ncart)) for j in range(ncart)] for r in range(npure)]
    labels = ["c0"] + [x for m in range(1, l + 1) for x in (f"c{m}", f"s{m}")]
    for r in range(npure):
        lab = labels[r]
        probs = []
        for s in range(npure):
            v = sum(TG[r][j] * T[s][j] for j in range(ncart))
            want = 1.0 if r == s else 0.0
            if abs(v - want) > TOL * 10:
                probs.append(f"<row {r}|row {s}> = {v:.15g}, expected {want}")
                break
        poly = {mons[k]: T[r][k] * norm[k] for k in range(ncart) if T[r][k] != 0.0}
        scale = max((abs(v) for v in poly.values()), default=0.0)
        if scale == 0.0:
            report_bad(r, f"tf{l} row {r} ({lab}) is zero")
            continue
        lap = laplacian(poly)
        worst = max((abs(v) for v in lap.values()), default=0.0)
        if worst > TOL * scale * max(1, l * l) * 10:
            probs.append(f"not harmonic (|laplacian| up to {worst:.3g})")
        m = int(lab[1:])
        l2 = lz(lz(poly))
        dev = 0.0
        for key in set(l2) | set(poly):
            dev = max(dev, abs(l2.get(key, 0.0) + m * m * poly.get(key, 0.0)))
        if dev > TOL * scale * max(1, l * l) * 100:
            probs.append(f"not an eigenfunction of L_z^2 with m={m} (deviation {dev:.3g})")
        ypar = {b % 2 for (a, b, c) in poly}
        wantpar = 0 if lab[0] == "c" else 1
        if ypar != {wantpar}:
            probs.append(f"y-parity {sorted(ypar)} contradicts label {lab}")
        lead = (m, 0, l - m) if lab[0] == "c" else (m - 1, 1, l - m)
        if not poly.get(lead, 0.0) > 0:
            probs.append(f"leading term x^{lead[0]} y^{lead[1]} z^{lead[2]} has coefficient {poly.get(lead, 0.0):.6g}, documented sign is +")
        if probs:
            report_bad(r, f"tf{l} row {r} ({lab}): " + "; ".join(probs))
        else:
            report_ok(r, f"tf{l} row {r} = {lab}: orthonormal, harmonic, L_z^2={m*m}, parity/sign ok ({sum(1 for x in T[r] if x)} non-zero entries)")


def _overlap_scope(prog, co):
    """compute_overlap and the plain helper functions of its module it reaches (a shell-pair or primitive-pair loop
    moved into a helper is still part of the assembly); not the kernel class, not the normalisation routines."""
    keep = [co]
    for h in prog.callees_closure([co]):
        if h is co or h.module is not co.module or h.cls is not None or h.parent is not None:
            continue
        if h.name in ("factorial2", "gob_cart_normalization", "_compute_cart_shell_normalizations"):
            continue
        keep.append(h)
    return keep


def _is_bool_flag(func, name, depth=0):
    """A local that only ever holds True / False, an identity test of the basis arguments, or another such flag
    (the one-basis symmetry flag)."""
    vals = [n.value for n in func.own_nodes() if isinstance(n, ast.Assign) and any(isinstance(t, ast.Name) and t.id == name for t in n.targets)]
    if not vals or name in func.params or depth > 3:
        return False
    for v in vals:
        if isinstance(v, ast.Constant) and isinstance(v.value, bool):
            continue
        if isinstance(v, ast.Compare) and len(v.ops) == 1 and isinstance(v.ops[0], (ast.Is, ast.IsNot)):
            continue
        if isinstance(v, ast.Name) and _is_bool_flag(func, v.id, depth + 1):
            continue
        return False
    return True


class _OverlapModel:
    """Model bases for evaluating compute_overlap as a whole (iodalint.accessors): shells as instances of the
    repository's Shell class with numeric exponents / coefficients, geometries without any symmetry.  scipy's binom /
    factorial2 are exact stubs (as in R11 / R12); the Cartesian-to-pure tables are the module's own (decided by R1)."""

    def __init__(self, prog, ce):
        import math

        from ..accessors import Rec

        self.prog = prog
        self.Rec = Rec
        self.shcls = prog.cls("iodata.basis.Shell")
        self.mbcls = prog.cls("iodata.basis.MolecularBasis")
        self.h2 = ce.global_value(prog.module("iodata.convert"), "HORTON2_CONVENTIONS")
        self.tfs = [np.array(T, dtype=float) for T in ce.global_value(prog.module("iodata.overlap_cartpure"), "tfs")]
        self.coords = np.array([[0.11, 0.23, -0.31], [0.72, -0.44, 0.53], [-0.61, 0.93, 0.37], [0.29, -0.87, -0.66]])

        def fact2(args, kw):
            m = args[0]
            if isinstance(m, np.ndarray):
                return np.array([fact2([int(x)], {}) for x in m.ravel()], dtype=float).reshape(m.shape)
            m = int(m)
            return 1 if m <= 0 else math.prod(range(m, 0, -2))

        self.fact2 = fact2
        self.ext = {"scipy.special.binom": lambda a, k: float(math.comb(int(a[0]), int(a[1]))), "scipy.special.factorial2": fact2}

    def shell(self, ic, angmoms, kinds, expo, coeffs):
        return self.Rec(self.shcls, icenter=ic, angmoms=np.array(angmoms), kinds=list(kinds), exponents=np.array(expo, dtype=float), coeffs=np.array(coeffs, dtype=float))

    def basis(self, shells, norm="L2", conventions=None):
        return self.Rec(self.mbcls, shells=list(shells), conventions=dict(conventions or self.h2), primitive_normalization=norm)

    def spd(self):
        """s on centre 0, Cartesian p on centre 1, pure d on centre 2, Cartesian d on centre 3: one primitive each."""
        return self.basis([self.shell(0, [0], ["c"], [1.3], [[1.0]]), self.shell(1, [1], ["c"], [0.8], [[1.0]]), self.shell(2, [2], ["p"], [0.6], [[1.0]]), self.shell(3, [2], ["c"], [0.9], [[1.0]])])

    def sp_small(self):
        return self.basis([self.shell(2, [0], ["c"], [0.7], [[1.0]]), self.shell(0, [1], ["c"], [1.1], [[1.0]])])

    def run(self, co, args, kwargs=None):
        """('value', matrix) | ('raises', class name); NotSymbolic -> AnalysisError."""
        from ..accessors import AccessorEval, Raised
        from ..symarr import NotSymbolic

        ev = AccessorEval(self.prog, None, limit=400000)
        ev.module = co.module
        ev.ext_stubs = self.ext
        ev.stubs = {"iodata.overlap.factorial2": self.fact2}
        ev.eager_generators = True
        ev._globals = {("iodata.overlap_cartpure", "tfs"): self.tfs}
        try:
            res = ev.run_free(co, list(args), dict(kwargs or {}))
        except Raised as exc:
            return ("raises", exc.args[0])
        except NotSymbolic as exc:
            raise AnalysisError(f"compute_overlap is outside the evaluation whitelist: {exc}") from exc
        try:
            return ("value", np.asarray(res, dtype=float))
        except (TypeError, ValueError):
            raise AnalysisError("compute_overlap: the evaluated result is not a numeric matrix") from None


def _mdiff(a, b):
    """None if equal within 1e-10, else a short description of the first difference."""
    if a.shape != b.shape:
        return f"shapes {a.shape} and {b.shape}"
    d = np.abs(a - b)
    if d.size and d.max() > 1e-10:
        i = tuple(int(v) for v in np.argwhere(d > 1e-10)[0])
        return f"element {i}: {a[i]:.6g} vs {b[i]:.6g}"
    return None


def _check_guard_table(ctx, co, model):
    """The rejection clauses as a decision table over (normalisation of the first basis, second basis given, its
    normalisation, second geometry given): the whole function is evaluated on small model bases."""
    A, B = model.sp_small, model.sp_small
    c = model.coords
    rows = [
        ("one L2 basis", lambda: [A(), c], None),
        ("one L1 basis", lambda: [model.basis(A().fields["shells"], "L1"), c], "ValueError"),
        ("one basis and a superfluous second geometry", lambda: [A(), c, None, c], "TypeError"),
        ("two L2 bases with both geometries", lambda: [A(), c, B(), c], None),
        ("two bases, the first L1", lambda: [model.basis(A().fields["shells"], "L1"), c, B(), c], "ValueError"),
        ("two bases, the second L1", lambda: [A(), c, model.basis(B().fields["shells"], "L1"), c], "ValueError"),
        ("two bases without the second geometry", lambda: [A(), c, B()], "TypeError"),
    ]
    bad = None
    for label, mk, want in rows:
        kind, val = model.run(co, mk())
        got = val if kind == "raises" else None
        if got != want:
            bad = f"{label}: {'accepted' if got is None else 'raises ' + got}, expected {'a matrix' if want is None else want}"
            break
    if bad:
        ctx.violate("R2", f"compute_overlap, {bad}", co, co.node, construct=f"overlap guards: {bad}"[:170])
    else:
        ctx.ok("R2", f"compute_overlap evaluated on {len(rows)} rows of the guard table: non-L2 bases raise ValueError, a missing / superfluous second geometry raises TypeError, supported input is accepted", co.where)


def _check_symmetry_relations(ctx, co, model):
    A, B, c = model.spd(), model.sp_small(), model.coords
    k1, S1 = model.run(co, [A, c])
    k2, S2 = model.run(co, [A, c, model.spd(), c.copy()])
    k3, SAB = model.run(co, [A, c, B, c])
    k4, SBA = model.run(co, [B, c, A, c])
    # the same basis *object* given twice with another geometry for the second copy is still a two-basis call
    c2 = c + np.array([[0.3, -0.2, 0.1], [-0.4, 0.25, 0.15], [0.05, 0.35, -0.3], [-0.15, -0.1, 0.45]])
    k5, Ssame = model.run(co, [A, c, A, c2])
    k6, Scopy = model.run(co, [A, c, model.spd(), c2])
    bad = None
    if "raises" in (k1, k2, k3, k4):
        which = [lab for lab, k in (("one basis", k1), ("the same basis given twice", k2), ("bases (s p d d) x (s p)", k3), ("bases (s p) x (s p d d)", k4)) if k == "raises"][0]
        bad = f"{which}: raises {[v for k, v in ((k1, S1), (k2, S2), (k3, SAB), (k4, SBA)) if k == 'raises'][0]}"
    else:
        n = S1.shape[0]
        if S1.shape != (15, 15):
            bad = f"one basis with 15 functions gives a matrix of shape {S1.shape}"
        elif _mdiff(S1, S1.T):
            bad = f"the one-basis matrix is not symmetric ({_mdiff(S1, S1.T)})"
        elif _mdiff(S1, S2):
            bad = f"the same basis given as second argument gives another matrix than the one-basis call ({_mdiff(S2, S1)})"
        elif "raises" in (k5, k6) or _mdiff(Ssame, Scopy):
            bad = "the same basis object given twice with two different geometries does not give the matrix of two equal bases at those geometries (" + (str(Ssame if k5 == "raises" else Scopy) if "raises" in (k5, k6) else _mdiff(Ssame, Scopy)) + ")"
        elif SAB.shape != (15, 4) or _mdiff(SAB, SBA.T):
            bad = f"exchanging the two bases does not transpose the matrix ({'shape ' + str(SAB.shape) if SAB.shape != (15, 4) else _mdiff(SAB, SBA.T)})"
    if bad:
        ctx.violate("R5", f"compute_overlap on model bases, {bad}", co, co.node, construct=f"overlap symmetry: {bad}"[:170])
    else:
        ctx.ok("R5", "compute_overlap on model bases (s, p, pure d, Cartesian d on four centres): symmetric for one basis, equal to the two-basis call with the same basis, transposed when the bases are exchanged", co.where)


def _check_generalized_contractions(ctx, co, model):
    c = model.coords
    gen = lambda: model.basis([model.shell(1, [0, 1], ["c", "c"], [1.4, 0.5], [[0.6, 0.3], [0.5, 0.8]]), model.shell(0, [2, 1], ["p", "c"], [0.9], [[1.0, 0.7]])])
    seg = lambda: model.basis([
        model.shell(1, [0], ["c"], [1.4, 0.5], [[0.6], [0.5]]), model.shell(1, [1], ["c"], [1.4, 0.5], [[0.3], [0.8]]),
        model.shell(0, [2], ["p"], [0.9], [[1.0]]), model.shell(0, [1], ["c"], [0.9], [[0.7]]),
    ])
    other = model.sp_small()
    bad = None
    for label, a_gen, a_seg in (
        ("one basis", [gen(), c], [seg(), c]),
        ("as the first of two bases", [gen(), c, other, c], [seg(), c, other, c]),
        ("as the second of two bases", [other, c, gen(), c], [other, c, seg(), c]),
    ):
        kg, Sg = model.run(co, a_gen)
        ks, Ss = model.run(co, a_seg)
        if kg == "raises" or ks == "raises":
            bad = f"{label}: raises {Sg if kg == 'raises' else Ss}"
            break
        d = _mdiff(Sg, Ss)
        if d:
            bad = f"{label}: a basis with an SP shell and a (pure d, p) shell differs from its segmented form ({d})"
            break
    if bad:
        ctx.violate("R4", f"compute_overlap, generalized contractions, {bad}", co, co.node, construct=f"overlap generalized: {bad}"[:170])
    else:
        ctx.ok("R4", "compute_overlap: a basis with generalized contractions (SP; pure d with p) gives the matrix of its segmented form, as only, first or second basis", co.where)


def _check_assembly(ctx, co, model):
    import math

    c = model.coords
    A = model.spd()
    k1, S = model.run(co, [A, c])
    bad = None
    if k1 == "raises":
        bad = f"raises {S}"
    else:
        blocks = [(0, 1), (1, 4), (4, 9), (9, 15)]
        a, b = 1.3, 0.8
        r2 = float(((c[0] - c[1]) ** 2).sum())
        # <s_a(c0) | p_b(c1)> needs more than the s-s formula; the s-s value is checked with the s shell of the small basis
        B = model.sp_small()
        k2, SAB = model.run(co, [A, c, B, c])
        if k2 == "raises":
            bad = f"two bases: raises {SAB}"
        else:
            a2 = 0.7
            r2b = float(((c[0] - c[2]) ** 2).sum())
            want_ss = (2 * a / math.pi) ** 0.75 * (2 * a2 / math.pi) ** 0.75 * (math.pi / (a + a2)) ** 1.5 * math.exp(-a * a2 / (a + a2) * r2b)
            if abs(SAB[0, 0] - want_ss) > 1e-10:
                bad = f"<s(1.3) on centre 0 | s(0.7) on centre 2> = {SAB[0, 0]:.10g}, closed form {want_ss:.10g}"
        if bad is None and np.abs(np.diag(S) - 1.0).max() > 1e-10:
            i = int(np.argmax(np.abs(np.diag(S) - 1.0)))
            bad = f"diagonal element {i} of a basis of normalised functions is {S[i, i]:.8g}"
        if bad is None:
            for bi, (lo0, hi0) in enumerate(blocks):
                for bj, (lo1, hi1) in enumerate(blocks):
                    if bi != bj and np.abs(S[lo0:hi0, lo1:hi1]).min() < 1e-9:
                        bad = f"the block of shells {bi} and {bj} (a geometry without symmetry) contains a zero: a shell pair, or part of it, is not computed or not stored at its place"
                        break
                if bad:
                    break
        if bad is None:
            # a shell changed in place after a first call (the Molden reader switches kinds after construction): the
            # second call sees the basis as it is now
            A2 = model.spd()
            model.run(co, [A2, c])
            A2.fields["shells"][2].fields["kinds"][0] = "c"
            fresh_ = model.spd()
            fresh_.fields["shells"][2].fields["kinds"] = ["c"]
            k7, Sold = model.run(co, [A2, c])
            k8, Snew = model.run(co, [fresh_, c])
            if "raises" in (k7, k8) or _mdiff(Sold, Snew):
                bad = f"after a shell kind was changed in place following a first call, compute_overlap {'raises ' + str(Sold) if k7 == 'raises' else 'gives another matrix than for a freshly built basis of the same shells (' + str(_mdiff(Sold, Snew)) + ')'}: something computed from the shells is remembered across calls"
        if bad is None:
            # centres on integer positions, once as an integer array and once as floats: the same matrix
            ci_ = np.array([[0, 0, 0], [1, -1, 2], [-2, 1, 1], [1, 2, -1]])
            ki, Si = model.run(co, [A, ci_])
            kf, Sf = model.run(co, [A, ci_.astype(float)])
            if "raises" in (ki, kf) or _mdiff(Si, Sf):
                bad = f"centres given as an integer array give another matrix than the same centres as floats ({Si if ki == 'raises' else (Sf if kf == 'raises' else _mdiff(Si, Sf))}): the result takes its type from the geometry"
        if bad is None:
            kt, St = model.run(co, [A, c + np.array([0.37, -1.21, 2.05])])
            if kt == "raises" or _mdiff(St, S):
                bad = f"translating all centres changes the matrix ({St if kt == 'raises' else _mdiff(St, S)})"
        if bad is None:
            conv = dict(model.h2)
            conv[(1, "c")] = ["z", "-x", "y"]
            conv[(2, "p")] = ["s2", "c0", "-c1", "s1", "c2"]
            kc, Sc = model.run(co, [model.basis(A.fields["shells"], conventions=conv), c])
            # new position <- (old position, sign), from the labels
            src = [(0, 1)] + [(3, 1), (1, -1), (2, 1)] + [(4 + j, sg) for j, sg in ((4, 1), (0, 1), (1, -1), (2, 1), (3, 1))] + [(9 + j, 1) for j in range(6)]
            if kc == "raises":
                bad = f"other conventions: raises {Sc}"
            else:
                want = np.array([[S[pi, pj] * si * sj for (pj, sj) in src] for (pi, si) in src])
                d = _mdiff(Sc, want)
                if d:
                    bad = f"conventions (p as z, -x, y; pure d as s2, c0, -c1, s1, c2) do not permute / sign-flip rows and columns accordingly ({d})"
    if bad:
        ctx.violate("R14", f"compute_overlap on model bases, {bad}", co, co.node, construct=f"overlap assembly: {bad}"[:170])
    else:
        ctx.ok("R14", "compute_overlap on model bases: unit diagonal, closed-form s-s element, every off-diagonal block of a generic geometry filled, translation invariance, conventions as permutation with signs", co.where)


def run(ctx):
    prog = ctx.prog
    ce = ConstEval(prog)
    ctx.clauses_decided = ["R1 Cartesian-to-pure tables", "R2 rejection guards", "R3 conventions on both axes", "R4 segmentation first", "R5 symmetric fill only when identical", "R6 screening constants"]
    ctx.clauses_declined = ["1-D binomial kernel / primitive normalisation / assembly arithmetic (numerical)", "positive semidefiniteness, translation invariance (numerical)"]

    # ------------------------------------------------------------------ R1
    ctx.rule("R1", "Cartesian-to-pure tables are the documented real solid harmonics", "a wrong digit/sign/row order gives wrong overlaps for every pure shell of that l")
    cm = prog.module("iodata.overlap_cartpure")
    try:
        tfs = ce.global_value(cm, "tfs")
    except NotConstant as exc:
        raise AnalysisError(f"overlap_cartpure.tfs is not a constant: {exc}") from exc
    if not isinstance(tfs, (list, tuple)) or len(tfs) < 8:
        raise AnalysisError(f"overlap_cartpure.tfs has {len(tfs) if hasattr(tfs, '__len__') else '?'} entries, expected >= 8")
    nrows = nent = 0
    for l, T in enumerate(tfs):
        T = [list(r) for r in T]

        def okf(r, msg, l=l):
            ctx.ok("R1", msg, f"{cm.relpath}:tf{l}", sample=(l in (2, 3) and r in (0, 3)))

        def badf(r, msg, l=l):
            ctx.violate("R1", msg, relpath=cm.relpath, function=f"iodata.overlap_cartpure.tf{l}", construct=f"tf{l} row {r}")

        check_tf(l, T, okf, badf)
        nrows += len(T)
        nent += sum(len(r) for r in T)
    ctx.extra["tf_rows"] = nrows
    ctx.extra["tf_entries"] = nent
    ctx.floor("R1", nrows, 64, "table rows")
    # the order of Cartesians used by compute_overlap is the alphabetical one of the tables
    om = prog.module("iodata.overlap")
    co = prog.func("iodata.overlap.compute_overlap")
    ica = prog.func("iodata.convert.iter_cart_alphabet")
    if any(ica in cs.callees for g_ in [co] + [h for h in prog.callees_closure([co]) if h.module is co.module] for cs in g_.calls):
        h2 = ce.global_value(prog.module("iodata.convert"), "HORTON2_CONVENTIONS")
        if all(h2.get((l, "c")) == cart_labels(l) for l in range(8)):
            ctx.ok("R1", "compute_overlap enumerates Cartesians with iter_cart_alphabet = the alphabetical order assumed for the table columns", co.where)
        else:
            ctx.violate("R1", "iter_cart_alphabet no longer yields alphabetical order (column order of tf tables)", ica, ica.node, construct="iter_cart_alphabet order")
    else:
        ctx.violate("R1", "compute_overlap no longer enumerates Cartesian functions with iter_cart_alphabet", co, co.node, construct="cartesian enumeration")
    # tfs[l] indexed by the shell's angular momentum, transposed on the column side
    tf_uses = [n for g_ in [co] + [h for h in prog.callees_closure([co]) if h.module is co.module] for n in g_.own_nodes() if isinstance(n, ast.Subscript) and isinstance(n.value, ast.Name) and n.value.id == "tfs"]
    if len(tf_uses) >= 2:
        ctx.ok("R1", f"tfs[...] applied on both sides ({len(tf_uses)} uses)", co.where)
    else:
        ctx.violate("R1", "Cartesian-to-pure transformation is not applied on both the row and the column side", co, co.node, construct="tfs uses")

    # ------------------------------------------------------------------ R2 / R4 / R5 (whole function, evaluated)
    cfg = cfg_of(co)
    b0, c0n, b1, c1n = co.posparams[:4]
    model = _OverlapModel(prog, ce)
    ctx.rule("R2", "unsupported input is rejected before any computation", "L1-normalised or inconsistent input silently gives a wrong matrix")
    _check_guard_table(ctx, co, model)
    ctx.rule("R5", "one basis: symmetric matrix; two bases: exchanging them transposes it (evaluated on model bases)", "an unconditional symmetric fill corrupts the two-basis matrix; a missing one leaves the upper triangle empty")
    _check_symmetry_relations(ctx, co, model)

    # ------------------------------------------------------------------ R3
    ctx.rule("R3", "rows and columns converted with the matching basis' conventions", "a dropped permutation/sign, signs applied before the rows are moved, or a wrong direction returns a matrix whose rows/columns belong to other functions")
    _check_overlap_tail(ctx, co, b0, b1)
    _seg(ctx)

    # ------------------------------------------------------------------ R4
    ctx.rule("R4", "generalized contractions (also of the second basis, also SP shells) give the matrix of their segmented form (evaluated)", "a generalized contraction would be computed with its first angular momentum only")
    _check_generalized_contractions(ctx, co, model)

    # ------------------------------------------------------------------ R6
    ctx.rule("R6", "screening thresholds are literals <= 1e-15", "a larger threshold drops contributions above the documented screening level")
    nthr = 0
    scope = _overlap_scope(prog, co)
    for fn_ in scope:
        for n in fn_.own_nodes():
            if isinstance(n, ast.Compare):
                for e in [n.left] + n.comparators:
                    if isinstance(e, ast.Constant) and isinstance(e.value, float) and 0 < e.value < 1e-3:
                        nthr += 1
                        if e.value <= 1e-15:
                            ctx.ok("R6", f"threshold {e.value:g}", f"{om.relpath}:{n.lineno}")
                        else:
                            ctx.violate("R6", f"screening threshold {e.value:g} exceeds the documented 1e-15", fn_, n)
    ctx.floor("R6", nthr, 2, "screening comparisons")
    # the shell-pair bound must dominate every primitive pair: exp(-a0 a1 r^2 / (a0 + a1)) decreases with either
    # exponent, so the bound has to be taken at the smallest exponent of each shell (a min-reduction, not a position)
    pmc = prog.parents(co)
    nbound = 0
    for fn_ in scope:
      for n in fn_.own_nodes():
        if isinstance(n, ast.If) and isinstance(n.test, ast.Compare) and any(isinstance(x, (ast.For, ast.Call)) and (isinstance(x, ast.For) or any(h_ in scope for cs_ in fn_.calls if cs_.node is x for h_ in cs_.callees)) for s_ in n.body for x in ast.walk(s_)):
            names = [x for x in ast.walk(n.test) if isinstance(x, ast.Name)]
            seen, work = set(), list(names)
            while work:
                x = work.pop()
                if x.id in seen:
                    continue
                seen.add(x.id)
                d = single_def(fn_, x.id)
                if d is None:
                    alld = [n_.value for n_ in fn_.own_nodes() if isinstance(n_, ast.Assign) and len(n_.targets) == 1 and isinstance(n_.targets[0], ast.Name) and n_.targets[0].id == x.id]
                    d = alld[0] if alld else None  # several assignments: R7 reports the overwrite, R6 judges the first
                if d is None:
                    continue
                if any(isinstance(y, ast.Attribute) and y.attr == "exponents" for y in ast.walk(d)):
                    nbound += 1
                    is_min = isinstance(d, ast.Call) and ((src_of(d.func) in ("np.min", "min", "np.amin") and len(d.args) == 1 and isinstance(d.args[0], ast.Attribute) and d.args[0].attr == "exponents") or (isinstance(d.func, ast.Attribute) and d.func.attr == "min" and isinstance(d.func.value, ast.Attribute) and d.func.value.attr == "exponents" and not d.args))
                    if is_min:
                        ctx.ok("R6", f"shell-pair bound uses `{x.id} = {src_of(d)}` (smallest exponent of the shell)", f"{om.relpath}:{d.lineno}")
                    else:
                        ctx.violate("R6", f"the shell-pair screening bound takes `{x.id} = {src_of(d)}`, which is not the minimum over the shell's exponents: with primitives in another order the bound underestimates and a significant block is skipped", fn_, d)
                else:
                    work.extend(y for y in ast.walk(d) if isinstance(y, ast.Name))
    ctx.floor("R6", nbound, 2, "exponent reductions feeding the shell-pair bound")

    # ------------------------------------------------------------------ R7
    ctx.rule("R7", "every shell-pair block is computed unless the screening bound is below the threshold", "an added shortcut (parity, same-centre, selection rule) zeroes a block that is not zero")
    shell_loops = [n for n in co.own_nodes() if isinstance(n, ast.For) and any(isinstance(x, ast.Attribute) and x.attr == "shells" for x in ast.walk(n.iter))]
    if len(shell_loops) != 2:
        ctx.violate("R7", f"expected the two nested shell loops in compute_overlap, found {len(shell_loops)}", co, co.node, construct="shell loops")
    else:
        outer, inner_l = sorted(shell_loops, key=lambda l: l.lineno)
        stores = [n for n in ast.walk(inner_l) if isinstance(n, (ast.Assign, ast.AugAssign)) and any(isinstance(t, ast.Subscript) and isinstance(t.value, ast.Name) and t.value.id == "overlap" for t in (n.targets if isinstance(n, ast.Assign) else [n.target]))]
        # 1. no continue / break that leaves a shell iteration
        nskip = 0
        for n in ast.walk(outer):
            if isinstance(n, (ast.Continue, ast.Break)):
                cur = n
                while id(cur) in pmc and not isinstance(pmc[id(cur)], (ast.For, ast.While)):
                    cur = pmc[id(cur)]
                lp = pmc.get(id(cur))
                if lp is outer or lp is inner_l:
                    nskip += 1
                    ctx.violate("R7", f"`{type(n).__name__.lower()}` leaves an iteration of the shell-pair loop: the block of that pair stays zero", co, n)
        # 2. the conditions guarding the block store are screening tests only
        for stn in stores:
            cur = stn
            while id(cur) in pmc and pmc[id(cur)] is not inner_l:
                par = pmc[id(cur)]
                if isinstance(par, ast.If):
                    t = par.test
                    is_screen = isinstance(t, ast.Compare) and len(t.ops) == 1 and any(isinstance(e, ast.Constant) and isinstance(e.value, float) and 0 < e.value <= 1e-15 for e in [t.left] + t.comparators)
                    # a bare local as the test: the one-basis flag (what it stands for is decided by the evaluated
                    # relations of R5 / R14: a flag that switches off blocks shows there)
                    is_ident = isinstance(t, ast.Name) or (isinstance(t, ast.UnaryOp) and isinstance(t.op, ast.Not) and isinstance(t.operand, ast.Name))
                    if is_screen or is_ident:
                        pass
                    else:
                        ctx.violate("R7", f"a shell-pair block is stored only when `{src_of(t)[:70]}`: that is neither the screening test nor the one-basis symmetry test", co, par.test)
                        nskip += 1
                cur = par
        # 3. the shell-level screening quantity is assigned once before its test
        for n in inner_l.body:
            if isinstance(n, ast.If) and isinstance(n.test, ast.Compare) and any(isinstance(e, ast.Constant) and isinstance(e.value, float) and 0 < e.value <= 1e-15 for e in [n.test.left] + n.test.comparators):
                for nm in sorted({x.id for x in ast.walk(n.test) if isinstance(x, ast.Name)}):
                    defs = [d_ for b_ in inner_l.body if b_.lineno < n.lineno for d_ in ast.walk(b_) if isinstance(d_, (ast.Assign, ast.AugAssign)) and any(isinstance(t, ast.Name) and t.id == nm for t in (d_.targets if isinstance(d_, ast.Assign) else [d_.target]))]
                    if len(defs) > 1:
                        nskip += 1
                        ctx.violate("R7", f"the screening quantity `{nm}` is assigned {len(defs)} times before its test: a conditional overwrite (`{src_of(defs[-1])[:50]}`) switches blocks off outside the documented screening", co, defs[-1])
        if not nskip:
            ctx.ok("R7", f"{len(stores)} block store(s): guarded only by the screening comparison / the one-basis symmetry flag; no continue/break at shell level; screening quantities assigned once", f"{om.relpath}:{inner_l.lineno}")
        ctx.floor("R7", len(stores), 1, "block stores")
    ctx.rule("R14", "assembly on model bases (evaluated): unit diagonal, the closed-form s-s value, no block of a generic geometry left empty, translation invariance, conventions as permutations with signs", "a block stored at the wrong offset, skipped by an added shortcut, or transformed with the other shell's table")
    _check_assembly(ctx, co, model)
    _check_screened_quantity(ctx, co)
    _check_translation_weights(ctx, co)
    _check_kernel(ctx)
    _check_normalization(ctx)


def _seg(ctx):
    from .segpred import check_segmentation

    ctx.rule("R8", "the segmentation applied before the integrals keeps every contraction in the order of the basis (evaluated)", "rows and columns of the matrix no longer follow the basis functions of the given basis")
    check_segmentation(ctx, "R8", "R8")


def _check_overlap_tail(ctx, co, b0, b1):
    """The statements of compute_overlap after the shell loops, evaluated on a symbolic matrix: the returned matrix is
    out[i, j] = signs_row[i] * signs_col[j] * internal[perm_row[i], perm_col[j]], with the (permutation, signs) of
    convert_conventions(<basis>, HORTON2_CONVENTIONS, reverse=True) of the row / column basis."""
    import numpy as np

    from ..accessors import AccessorEval, Raised
    from ..consteval import ConstEval, NotConstant
    from ..symarr import NotSymbolic, first_difference, sym_array

    prog = ctx.prog
    cc = prog.func("iodata.convert.convert_conventions")
    loops = [k for k, st in enumerate(co.body) if isinstance(st, ast.For) and any(isinstance(x, ast.Attribute) and x.attr == "shells" for x in ast.walk(st.iter))]
    if not loops:
        raise AnalysisError("compute_overlap: cannot find the shell loop")
    tail = co.body[loops[-1] + 1:]
    stores = [n for n in ast.walk(co.body[loops[-1]]) if isinstance(n, ast.Assign) and any(isinstance(t, ast.Subscript) and isinstance(t.value, ast.Name) for t in n.targets)]
    mats = {t.value.id for n in stores for t in n.targets if isinstance(t, ast.Subscript) and isinstance(t.value, ast.Name)}
    mat = next((m for m in mats if any(isinstance(x, ast.Name) and x.id == m for st in tail for x in ast.walk(st))), None)
    flags = sorted({x.id for st in tail for x in ast.walk(st) if isinstance(x, ast.Name) and _is_bool_flag(co, x.id)} | {x.test.id for st in tail for x in ast.walk(st) if isinstance(x, (ast.If, ast.IfExp)) and isinstance(x.test, ast.Name) and x.test.id in co.locals} | {x.test.operand.id for st in tail for x in ast.walk(st) if isinstance(x, (ast.If, ast.IfExp)) and isinstance(x.test, ast.UnaryOp) and isinstance(x.test.operand, ast.Name) and x.test.operand.id in co.locals})
    if mat is None or not tail:
        raise AnalysisError("compute_overlap: cannot find the convention conversion after the shell loops")
    try:
        h2 = ConstEval(prog).global_value(prog.module("iodata.convert"), "HORTON2_CONVENTIONS")
    except NotConstant as exc:
        raise AnalysisError(f"HORTON2_CONVENTIONS is not a constant: {exc}") from exc
    where = f"{co.module.relpath}:{tail[0].lineno}"
    try:
        for identical in (True, False):
            O = sym_array("O", (3, 3))
            m0, m1 = ("basis", 0), ("basis", 0 if identical else 1)
            res = {0: ([2, 0, 1], sym_array("r", (3,))), 1: ([1, 2, 0], sym_array("q", (3,)))}
            calls = []

            def stub(args, kw, calls=calls, res=res):
                bound = dict(zip(cc.posparams, args))
                bound.update(kw)
                calls.append(bound)
                b = bound.get(cc.posparams[0])
                if not (isinstance(b, tuple) and b and b[0] == "basis"):
                    raise NotSymbolic("convert_conventions called on something else than a basis argument")
                p_, s_ = res[b[1]]
                return (np.array(p_), s_)

            ev = AccessorEval(prog, prog.cls("iodata.basis.Shell"))
            ev.module = co.module
            ev.stubs = {cc.qualname: stub}
            local = {mat: O.copy(), b0: m0, b1: m1}
            for fl in flags:
                local[fl] = identical
            got = None
            try:
                from ..accessors import _Return

                try:
                    ev._block(tail, local)
                except _Return as r:
                    got = r.value
            except Raised as exc:
                ctx.violate("R3", f"the conversion after the shell loops raises {exc.cls} ({'one basis' if identical else 'two bases'})", co, tail[0], construct=f"overlap tail raises {exc.cls}")
                continue
            label = "one basis" if identical else "two bases"
            bad = [c for c in calls if c.get(cc.posparams[2]) is not True or c.get(cc.posparams[1]) != h2]
            if bad:
                c = bad[0]
                ctx.violate("R3", f"{label}: convert_conventions is called with reverse={c.get(cc.posparams[2])!r}" + ("" if c.get(cc.posparams[1]) == h2 else " and a table other than HORTON2_CONVENTIONS") + ": the matrix is computed in HORTON2 order, so the conversion to the basis' conventions needs (basis, HORTON2_CONVENTIONS, reverse=True)", co, tail[0], construct=f"overlap tail {label}: convert_conventions arguments")
                continue
            pr, sr = res[0]
            pc, sc = res[0] if identical else res[1]
            want = np.array([[sr[i] * sc[j] * O[pr[i], pc[j]] for j in range(3)] for i in range(3)], dtype=object)
            diff = first_difference(got, want) if got is not None else "nothing is returned"
            if diff is None:
                ctx.ok("R3", f"{label}: returned[i, j] = signs_row[i] * signs_col[j] * internal[perm_row[i], perm_col[j]] (evaluated on a symbolic 3x3 matrix; rows use the first basis, columns the " + ("same" if identical else "second") + " basis; convert_conventions(..., HORTON2_CONVENTIONS, reverse=True))", where)
            else:
                ctx.violate("R3", f"{label}: the matrix returned after the shell loops is not the convention-converted one: {diff}", co, tail[-1], construct=f"overlap tail {label}: {diff}"[:200])
    except NotSymbolic as exc:
        raise AnalysisError(f"compute_overlap: the conversion after the shell loops is outside the evaluation whitelist: {exc}") from exc


def _check_screened_quantity(ctx, co):
    ctx.rule("R9", "the quantity compared with the screening threshold is the bare pair exponential", "pairs of tight primitives on nearby centres are dropped although their normalised contribution is far above 1e-15")
    total = 0
    for fn_ in _overlap_scope(ctx.prog, co):
        total += _check_screened_quantity_in(ctx, fn_)
    ctx.floor("R9", total, 2, "screening comparisons")


def _check_screened_quantity_in(ctx, co):
    """R9: what is compared with the screening threshold is the bare pair exponential exp(-(a0 a1 / (a0 + a1)) R^2).

    That number bounds the normalised overlap of the primitive pair from above (the normalised s-s overlap is
    (2 sqrt(a0 a1) / (a0 + a1))^1.5 times it), so dropping pairs below 1e-15 is safe.  Any further factor folded into the
    tested quantity -- (pi / (a0 + a1))^1.5 is tiny for tight primitives -- drops pairs whose normalised contribution is
    far above the threshold.  Decided on the defining expression of the tested name, evaluated on symbols."""
    from ..symarr import OPAQUE_ARGS, NotSymbolic, Sym, SymEval

    pm = ctx.prog.parents(co)
    ntest = 0
    for n in co.own_nodes():
        if not (isinstance(n, ast.Compare) and len(n.ops) == 1 and isinstance(n.left, ast.Name) and isinstance(n.comparators[0], ast.Constant) and isinstance(n.comparators[0].value, float) and 0 < n.comparators[0].value < 1e-3):
            continue
        var = n.left.id
        ntest += 1
        # the statement holding the comparison, and the assignments to `var` that precede it in the same block
        st = n
        while not isinstance(st, ast.stmt):
            st = pm[id(st)]
        block = None
        par = pm.get(id(st))
        for fld in ("body", "orelse", "finalbody"):
            seq = getattr(par, fld, None)
            if isinstance(seq, list) and st in seq:
                block = seq
        if block is None:
            raise AnalysisError("compute_overlap: cannot locate the block of a screening comparison")
        defs = [s_ for s_ in block[: block.index(st)] if isinstance(s_, (ast.Assign, ast.AugAssign)) and any(isinstance(t, ast.Name) and t.id == var for t in (s_.targets if isinstance(s_, ast.Assign) else [s_.target]))]
        if not defs or not isinstance(defs[0], ast.Assign) and not any(isinstance(d_, ast.Assign) for d_ in defs):
            raise AnalysisError(f"compute_overlap: `{var}` is not assigned in the block of its screening comparison")
        # evaluate: every free name is an atom; divisions by local sums use the name of the sum
        env = {}

        class _E(SymEval):
            def e_Name(self_, nd):
                if nd.id in self_.env:
                    return self_.env[nd.id]
                return Sym.atom(nd.id)

            def e_Attribute(self_, nd):
                if isinstance(nd.value, ast.Name) and nd.value.id in ("np", "numpy", "math") and nd.attr in ("pi", "e"):
                    return Sym.atom(nd.attr)
                return super().e_Attribute(nd)

            def e_BinOp(self_, nd):
                if isinstance(nd.op, ast.Pow):
                    try:
                        return super().e_BinOp(nd)
                    except (NotSymbolic, TypeError, ValueError):
                        return Sym.atom("(" + ast.unparse(nd) + ")")  # a power the polynomial ring cannot hold: a factor
                return super().e_BinOp(nd)

        value = None
        try:
            for d_ in defs:
                ev = _E(dict(env), None, {"np", "numpy", "math"})
                if isinstance(d_, ast.Assign):
                    value = ev.eval(_deep_div(d_.value))
                else:
                    value = ev.eval(ast.BinOp(left=ast.Name(id=var, ctx=ast.Load()), op=d_.op, right=_deep_div(d_.value)))
                env[var] = value
        except NotSymbolic as exc:
            raise AnalysisError(f"compute_overlap: the screened quantity `{var}` is outside the symbolic whitelist: {exc}") from exc
        value = Sym.const(value)
        ok = False
        why = f"`{var}` = {value!r}"
        if len(value.terms) == 1:
            (mono, coef), = value.terms.items()
            if coef == 1 and len(mono) == 1 and mono[0][1] == 1 and mono[0][0] in OPAQUE_ARGS and OPAQUE_ARGS[mono[0][0]][0] == "exp":
                arg = OPAQUE_ARGS[mono[0][0]][1]
                if len(arg.terms) == 1 and next(iter(arg.terms.values())) < 0:
                    ok = True
                else:
                    why = f"`{var}` = exp({arg!r}): the exponent is not a single negative product"
        if ok:
            ctx.ok("R9", f"`{var}` compared with {n.comparators[0].value:g} is the bare exponential {value!r}", f"{co.module.relpath}:{n.lineno}")
        else:
            ctx.violate("R9", f"the quantity compared with the screening threshold is not the bare pair exponential: {why}; a factor folded into it changes which pairs are dropped (the bound on the normalised overlap no longer holds)", co, n, construct=f"screened quantity {var}: not a bare exponential")
    return ntest


def _deep_div(e):
    """x / (a + b)  ->  x * INV_a_plus_b  (a fresh atom), so that the polynomial evaluator can represent it."""
    import copy

    class _T(ast.NodeTransformer):
        def visit_BinOp(self, nd):
            self.generic_visit(nd)
            if isinstance(nd.op, ast.Div) and isinstance(nd.right, ast.BinOp) and isinstance(nd.right.op, (ast.Add, ast.Sub)):
                return ast.BinOp(left=nd.left, op=ast.Mult(), right=ast.Name(id="INV(" + ast.unparse(nd.right) + ")", ctx=ast.Load()))
            return nd

    return ast.fix_missing_locations(_T().visit(copy.deepcopy(e)))


def _check_translation_weights(ctx, co):
    """R10: centre coordinates enter the integrals through differences only (translation invariance by construction).

    Every value computed in compute_overlap gets a *translation weight* w: shifting all centres by t changes the value
    by w t.  Centres have w = 1, exponents w = 0; sums, differences and products with scalars propagate w exactly
    (rational arithmetic at a generic point for the exponents).  A product of two values with w != 0 is quadratic in
    the absolute position -- analytically harmless, numerically a catastrophic cancellation far from the origin -- and
    whatever reaches exp() or the one-dimensional kernels must have w = 0."""
    from fractions import Fraction

    ctx.rule("R10", "centres enter through differences only: nothing is quadratic in absolute positions, kernels get translation-invariant arguments", "for a molecule far from the origin the squared distance loses its digits: overlaps change when all centres are translated")
    primes = iter([Fraction(3, 7), Fraction(5, 11), Fraction(13, 17), Fraction(19, 23), Fraction(29, 31), Fraction(37, 41), Fraction(43, 47)])
    env = {}
    problems = []
    sinks = 0
    UNKNOWN = ("?", None, None)

    def ev(e):
        """-> (kind, weight or None, scalar value or None)"""
        if isinstance(e, ast.Constant) and isinstance(e.value, (int, float)) and not isinstance(e.value, bool):
            return ("s", Fraction(0), Fraction(e.value).limit_denominator(10**6))
        if isinstance(e, ast.Name):
            return env.get(e.id, ("s", Fraction(0), None))
        if isinstance(e, ast.Attribute):
            if isinstance(e.value, ast.Name) and e.value.id in ("np", "numpy", "math") and e.attr == "pi":
                return ("s", Fraction(0), Fraction(355, 113))
            b = ev(e.value)
            return (b[0], b[1], None)
        if isinstance(e, ast.Subscript):
            if isinstance(e.value, ast.Name) and e.value.id.startswith("atcoords"):
                return ("v", Fraction(1), None)
            b = ev(e.value)
            return (b[0], b[1], None)
        if isinstance(e, ast.UnaryOp) and isinstance(e.op, (ast.USub, ast.UAdd)):
            b = ev(e.operand)
            sgn = -1 if isinstance(e.op, ast.USub) else 1
            return (b[0], None if b[1] is None else sgn * b[1], None if b[2] is None else sgn * b[2])
        if isinstance(e, ast.BinOp) and isinstance(e.op, ast.MatMult):
            # a @ b of two vectors is np.dot(a, b)
            return ev(ast.Call(func=ast.Attribute(value=ast.Name(id="np", ctx=ast.Load()), attr="dot", ctx=ast.Load()), args=[e.left, e.right], keywords=[]))
        if isinstance(e, ast.BinOp):
            l, r = ev(e.left), ev(e.right)
            kind = "v" if "v" in (l[0], r[0]) else l[0]
            if isinstance(e.op, (ast.Add, ast.Sub)):
                sgn = 1 if isinstance(e.op, ast.Add) else -1
                w = None if l[1] is None or r[1] is None else l[1] + sgn * r[1]
                s = None if l[2] is None or r[2] is None else l[2] + sgn * r[2]
                return (kind, w, s)
            if isinstance(e.op, ast.Mult):
                if l[1] is None or r[1] is None:
                    return (kind, None, None)
                if l[1] != 0 and r[1] != 0:
                    problems.append((e, f"`{src_of(e)[:60]}` multiplies two quantities that both move with the centres"))
                    return (kind, None, None)
                if l[1] == 0 and r[1] == 0:
                    return (kind, Fraction(0), None if l[2] is None or r[2] is None else l[2] * r[2])
                sc, ot = (l, r) if l[1] == 0 else (r, l)
                return (kind, None if sc[2] is None else sc[2] * ot[1], None)
            if isinstance(e.op, ast.Div):
                if r[1] is None or l[1] is None:
                    return (kind, None, None)
                if r[1] != 0:
                    problems.append((e, f"`{src_of(e)[:60]}` divides by a quantity that moves with the centres"))
                    return (kind, None, None)
                if l[1] == 0:
                    return (kind, Fraction(0), None if l[2] is None or r[2] is None or r[2] == 0 else l[2] / r[2])
                return (kind, None if r[2] is None or r[2] == 0 else l[1] / r[2], None)
            if isinstance(e.op, ast.Pow):
                if l[1] is not None and l[1] != 0:
                    problems.append((e, f"`{src_of(e)[:60]}` raises a quantity that moves with the centres to a power"))
                    return (kind, None, None)
                return (kind, l[1], None)
            return UNKNOWN
        if isinstance(e, ast.Call):
            fn = src_of(e.func)
            args = [ev(a) for a in e.args]
            if fn in ("np.dot", "numpy.dot", "np.inner", "np.vdot") and len(args) == 2:
                l, r = args
                if l[1] is None or r[1] is None:
                    return ("s", None, None)
                if l[1] != 0 or r[1] != 0:
                    problems.append((e, f"`{src_of(e)[:60]}` is a product with an absolute position ({'both factors move' if l[1] != 0 and r[1] != 0 else 'one factor moves'} with the centres)"))
                    return ("s", None, None)
                return ("s", Fraction(0), None)
            if fn in ("np.linalg.norm", "np.sum", "np.square", "np.abs", "abs", "np.sqrt", "float", "np.array", "np.asarray") and args:
                if fn in ("np.linalg.norm", "np.square") and args[0][1] not in (None, Fraction(0)):
                    problems.append((e, f"`{src_of(e)[:60]}` takes the length / square of an absolute position"))
                    return ("s", None, None)
                return (args[0][0], args[0][1], None)
            return ("s", Fraction(0), None) if all(a[1] == 0 for a in args) else ("s", None, None)
        return UNKNOWN

    def sink(e, what):
        nonlocal sinks
        sinks += 1
        v = ev(e)
        if v[1] is None:
            if not problems:
                raise AnalysisError(f"compute_overlap: the translation weight of `{src_of(e)[:60]}` ({what}) cannot be determined")
        elif v[1] != 0:
            problems.append((e, f"`{src_of(e)[:60]}` ({what}) changes by {v[1]} t when all centres are translated by t"))

    scope = _overlap_scope(ctx.prog, co)
    kernel_names = {"compute_overlap_1d"}
    cur = [co]
    depth = [0]

    def enter_helpers(expr):
        """Module-local helpers called in `expr`: analysed with their parameters bound to the weights of the arguments."""
        for c in ast.walk(expr):
            if not isinstance(c, ast.Call):
                continue
            h = next((g for cs_ in cur[-1].calls if cs_.node is c for g in cs_.callees if g in scope and g is not co), None)
            if h is None or depth[0] > 3:
                continue
            from ..astutil import bind_call as _bind

            bound, _extra, _ok = _bind(c, h)
            vals = {p_: ev(a_) for p_, a_ in bound.items() if isinstance(a_, ast.AST)}
            knames = {p_ for p_, a_ in bound.items() if isinstance(a_, ast.Name) and a_.id in kernel_names}
            saved, saved_k = dict(env), set(kernel_names)
            env.clear()
            env.update(vals)
            kernel_names.update(knames)
            cur.append(h)
            depth[0] += 1
            visit(h.body)
            depth[0] -= 1
            cur.pop()
            env.clear()
            env.update(saved)
            kernel_names.clear()
            kernel_names.update(saved_k)

    def visit(stmts):
        for st in stmts:
            if isinstance(st, (ast.Assign, ast.Expr, ast.Return)) and getattr(st, "value", None) is not None:
                enter_helpers(st.value)
            if isinstance(st, ast.Assign) and len(st.targets) == 1 and isinstance(st.targets[0], ast.Name):
                if isinstance(st.value, ast.Call) and src_of(st.value.func) in ("np.frompyfunc", "numpy.frompyfunc"):
                    kernel_names.add(st.targets[0].id)
                for c in ast.walk(st.value):
                    if isinstance(c, ast.Call):
                        fn = src_of(c.func)
                        if fn in ("np.exp", "math.exp", "numpy.exp"):
                            sink(c.args[0], "argument of exp")
                        elif fn in kernel_names:
                            sink(c.args[0], "first centre argument of the 1-D kernel")
                            sink(c.args[1], "second centre argument of the 1-D kernel")
                env[st.targets[0].id] = ev(st.value)
            elif isinstance(st, ast.AugAssign) and isinstance(st.target, ast.Name):
                env[st.target.id] = ev(ast.BinOp(left=ast.Name(id=st.target.id, ctx=ast.Load()), op=st.op, right=st.value))
            elif isinstance(st, ast.For):
                # loop variables over exponents are scalars at a generic rational point
                tg = st.target.elts if isinstance(st.target, ast.Tuple) else [st.target]
                for t in tg:
                    if isinstance(t, ast.Name):
                        expo = "exponents" in src_of(st.iter) and t is tg[-1]
                        env[t.id] = ("s", Fraction(0), next(primes) if expo else None)
                visit(st.body)
            elif isinstance(st, (ast.If, ast.While)):
                visit(st.body)
                visit(st.orelse)
            elif isinstance(st, ast.With):
                visit(st.body)

    visit(co.body)
    if problems:
        seen = set()
        for node, msg in problems:
            if msg in seen:
                continue
            seen.add(msg)
            ctx.violate("R10", msg + ": the result is no longer independent of where the molecule sits (cancellation grows with the square of the distance from the origin)", co, node)
    else:
        ctx.ok("R10", f"{sinks} kernel / exponential arguments have translation weight 0; no product of two position-dependent quantities", f"{co.module.relpath}:{co.lineno}")
    ctx.floor("R10", sinks, 3, "arguments of exp / the 1-D kernels")


def _check_kernel(ctx):
    """R11: the one-dimensional overlap kernel, evaluated on symbols, satisfies the defining recurrence.

    With S(n1, n2) = integral of (x - A)^n1 (x - B)^n2 exp(-a (x - P)^2) dx / integral of exp(-a (x - P)^2) dx,
    x1 = P - A, x2 = P - B and T = 2 a:   S(0, 0) = 1,   S(n1 + 1, n2) = x1 S(n1, n2) + (n1 S(n1 - 1, n2) + n2 S(n1, n2 - 1)) / T,
    and S(n1, n2; x1, x2) = S(n2, n1; x2, x1).  `GaussianOverlap.__init__` (binomials, double factorials) and
    `compute_overlap_gaussian_1d` are interpreted with exact stubs for scipy's binom / factorial2; the identities are
    polynomial identities in x1, x2 and 1/T, checked for all n1, n2 <= 7.  Any other correct algorithm satisfies them."""
    import math
    from fractions import Fraction

    from ..accessors import AccessorEval, Raised, Rec
    from ..symarr import NotSymbolic, Sym

    prog = ctx.prog
    ctx.rule("R11", "the 1-D overlap kernel satisfies its defining recurrence and symmetry (evaluated on symbols)", "a wrong binomial, double factorial, power of 2a or parity step gives wrong overlaps for d and higher functions only")
    gc = prog.cls("iodata.overlap.GaussianOverlap")
    init = gc.methods.get("__init__")
    kern = gc.methods.get("compute_overlap_gaussian_1d")
    if init is None or kern is None:
        raise AnalysisError("GaussianOverlap.__init__ / compute_overlap_gaussian_1d not found")

    def fact2(args, kw):
        m = args[0]
        if isinstance(m, np.ndarray):
            return np.array([fact2([int(x)], {}) for x in m.ravel()]).reshape(m.shape)
        m = int(m)
        return 1 if m <= 0 else math.prod(range(m, 0, -2))

    stubs = {"scipy.special.binom": lambda a, k: Fraction(math.comb(int(a[0]), int(a[1]))), "scipy.special.factorial2": fact2}
    nmax = 7  # the property quantifies over n1, n2 <= 7
    rec = Rec(gc)
    x1, x2, T = Sym.atom("x1"), Sym.atom("x2"), Sym.atom("T")
    S = {}
    try:
        ev = AccessorEval(prog, gc, limit=4000)
        ev.ext_stubs = stubs
        ev.run(init, rec, {init.posparams[1]: nmax})
        for n1 in range(nmax + 1):
            for n2 in range(nmax + 1):
                ev = AccessorEval(prog, gc, limit=20000)
                ev.ext_stubs = stubs
                S[(n1, n2)] = Sym.const(ev.run(kern, rec, dict(zip(kern.posparams[1:], [x1, x2, n1, n2, T]))))
        Sx = {}
        for n1, n2 in ((0, 1), (2, 1), (3, 2), (1, 4)):
            ev = AccessorEval(prog, gc, limit=20000)
            ev.ext_stubs = stubs
            Sx[(n1, n2)] = Sym.const(ev.run(kern, rec, dict(zip(kern.posparams[1:], [x2, x1, n2, n1, T]))))
    except Raised as exc:
        ctx.violate("R11", f"the 1-D kernel raises {exc.args[0]} for angular momenta up to {nmax}", kern, kern.node, construct="kernel raises")
        return
    except NotSymbolic as exc:
        raise AnalysisError(f"GaussianOverlap is outside the evaluation whitelist: {exc}") from exc
    def close(a, b):
        """Equal as polynomials, up to rounding of numeric constants the kernel may contain (a quadrature rule): every
        coefficient of the difference is below 1e-9 of the largest coefficient involved.  Exact kernels differ by 0."""
        a, b = Sym.const(a), Sym.const(b)
        if a == b:
            return True
        d = a - b
        scale = max([1.0] + [abs(float(c)) for c in list(a.terms.values()) + list(b.terms.values())])
        return all(abs(float(c)) <= 1e-9 * scale for c in d.terms.values())

    bad = None
    if not close(S[(0, 0)], Sym.const(1)):
        bad = f"S(0, 0) = {S[(0, 0)]!r}, expected 1"
    zero = Sym.const(0)
    for n1 in range(nmax):
        for n2 in range(nmax + 1):
            if bad:
                break
            rhs = x1 * S[(n1, n2)] + (Sym.const(n1) * (S[(n1 - 1, n2)] if n1 else zero) + Sym.const(n2) * (S[(n1, n2 - 1)] if n2 else zero)) / T
            if not close(S[(n1 + 1, n2)], rhs):
                bad = f"S({n1 + 1}, {n2}) = {str(S[(n1 + 1, n2)])[:70]} differs from x1 S({n1}, {n2}) + ({n1} S({n1 - 1}, {n2}) + {n2} S({n1}, {n2 - 1})) / T = {str(rhs)[:70]}"
    for (n1, n2), v in Sx.items():
        if not bad and not close(v, S[(n1, n2)]):
            bad = f"S({n1}, {n2}; x1, x2) differs from S({n2}, {n1}; x2, x1): the kernel is not symmetric under exchanging the two functions"
    if bad:
        ctx.violate("R11", f"1-D overlap kernel: {bad}", kern, kern.node, construct=f"kernel recurrence: {bad}"[:170])
    else:
        ctx.ok("R11", f"1-D overlap kernel: S(0,0) = 1, the recurrence in n1 for all n1 < {nmax}, n2 <= {nmax} and the exchange symmetry hold as polynomial identities in x1, x2, 1/T", f"{kern.module.relpath}:{kern.lineno}")


def _check_normalization(ctx):
    """R12: primitive normalisation constants, the kernel and the Gaussian prefactor fit together: for one Cartesian
    primitive with exponent a and powers n, N(a, n)^2 (pi / 2a)^{3/2} prod_k S(n_k, n_k; 0, 0; 4a) = 1 (self-overlap of a
    normalised function).  `gob_cart_normalization` and the kernel are evaluated numerically for exponents 0.5, 1.25, 3 and
    eight power triples up to l = 5; the identity fixes the power of a, the factor 4 and the double factorials."""
    import math

    from ..accessors import AccessorEval, Raised, Rec
    from ..symarr import NotSymbolic

    prog = ctx.prog
    ctx.rule("R13", "the kernel tables are sized for the highest angular momentum of *either* basis (the statements that size them, evaluated on bases of different height)", "sized from one basis only: exchanging the two bases raises IndexError instead of giving the transposed matrix")
    _check_table_size(ctx, prog.func("iodata.overlap.compute_overlap"))
    ctx.rule("R12", "normalisation constants x prefactor x kernel give unit self-overlap (evaluated)", "a wrong power or double factorial in the normalisation: every overlap of d and higher functions is scaled")
    gn = prog.funcs.get("iodata.overlap.gob_cart_normalization")
    gc = prog.cls("iodata.overlap.GaussianOverlap")
    if gn is None:
        raise AnalysisError("overlap.gob_cart_normalization not found")

    def fact2(args, kw):
        m = args[0]
        if isinstance(m, np.ndarray):
            return np.array([fact2([int(x)], {}) for x in m.ravel()], dtype=float).reshape(m.shape)
        m = int(m)
        return 1 if m <= 0 else math.prod(range(m, 0, -2))

    stubs = {"scipy.special.binom": lambda a, k: float(math.comb(int(a[0]), int(a[1]))), "scipy.special.factorial2": fact2}
    rec = Rec(gc)
    bad = None
    npts = 0
    try:
        ev = AccessorEval(prog, gc, limit=4000)
        ev.ext_stubs = stubs
        init, kern = gc.methods["__init__"], gc.methods["compute_overlap_gaussian_1d"]
        ev.run(init, rec, {init.posparams[1]: 5})
        for alpha in (0.5, 1.25, 3.0):
            for n in ((0, 0, 0), (1, 0, 0), (1, 1, 0), (2, 0, 0), (2, 1, 0), (3, 0, 0), (1, 1, 1), (2, 2, 1)):
                ev = AccessorEval(prog, None, limit=4000)
                ev.module = gn.module
                ev.ext_stubs = stubs
                ev.stubs = {"iodata.overlap.factorial2": fact2}  # the module's wrapper of scipy's factorial2 (n = -1 -> 1)
                norm = float(np.asarray(ev.run_free(gn, [alpha, np.array(n)], {}), dtype=float))
                k = 1.0
                for nk in n:
                    ev2 = AccessorEval(prog, gc, limit=20000)
                    ev2.ext_stubs = stubs
                    kv = ev2.run(kern, rec, dict(zip(kern.posparams[1:], [0.0, 0.0, nk, nk, 4 * alpha])))
                    if hasattr(kv, "terms"):
                        if any(m != () for m in kv.terms):
                            raise NotSymbolic("kernel value is symbolic")
                        kv = kv.terms.get((), 0)
                    k *= float(kv)
                val = norm * norm * (math.pi / (2 * alpha)) ** 1.5 * k
                npts += 1
                if abs(val - 1.0) > 1e-10 and bad is None:
                    bad = f"exponent {alpha}, powers {n}: N^2 (pi/2a)^1.5 prod S = {val:.6g} instead of 1"
    except Raised as exc:
        bad = f"evaluation raises {exc.args[0]}"
    except NotSymbolic as exc:
        raise AnalysisError(f"gob_cart_normalization / the kernel are outside the evaluation whitelist: {exc}") from exc
    if bad:
        ctx.violate("R12", f"primitive normalisation: {bad}", gn, gn.node, construct=f"normalisation identity: {bad}"[:150])
    else:
        ctx.ok("R12", f"unit self-overlap of a normalised Cartesian primitive at {npts} (exponent, powers) points", gn.where)


def _check_table_size(ctx, co):
    """The statements of compute_overlap between the last `convert_to_segmented` and the construction of
    GaussianOverlap are interpreted with model bases whose highest angular momenta differ; the constructor (stubbed)
    must be handed the larger of the two, whichever basis comes first, and the height of the one basis when there is
    only one."""
    from ..accessors import AccessorEval, Raised, Rec
    from ..symarr import NotSymbolic

    prog = ctx.prog
    gc = prog.cls("iodata.overlap.GaussianOverlap")
    shcls = prog.cls("iodata.basis.Shell")
    bcls = prog.cls("iodata.basis.MolecularBasis")
    body = co.body
    iend = next((i for i, st in enumerate(body) if any(isinstance(x, ast.Call) and isinstance(x.func, ast.Name) and x.func.id == gc.name for x in ast.walk(st))), None)
    if iend is None:
        raise AnalysisError("compute_overlap: the construction of GaussianOverlap was not found")
    # the statement itself and the straight-line assignments before it that feed its argument
    def assigned(st):
        if isinstance(st, ast.Assign):
            return {t.id for tg in st.targets for t in (tg.elts if isinstance(tg, ast.Tuple) else [tg]) if isinstance(t, ast.Name)}
        if isinstance(st, ast.AugAssign) and isinstance(st.target, ast.Name):
            return {st.target.id}
        if isinstance(st, ast.If):
            return set().union(*[assigned(x) for x in st.body + st.orelse]) if st.body or st.orelse else set()
        return set()

    def used(st):
        comp_targets = {t.id for c in ast.walk(st) if isinstance(c, ast.comprehension) for t in ast.walk(c.target) if isinstance(t, ast.Name)}
        return {x.id for x in ast.walk(st) if isinstance(x, ast.Name) and isinstance(x.ctx, ast.Load)} - comp_targets

    need = used(body[iend])
    frag = [body[iend]]
    j = iend - 1
    while j >= 0:
        st = body[j]
        if assigned(st) & need:
            frag.insert(0, st)
            need |= used(st)
        j -= 1
    p0, p2 = co.posparams[0], co.posparams[2]

    def basis(ls):
        return Rec(bcls, shells=[Rec(shcls, icenter=0, angmoms=np.array([l]), kinds=["c"], exponents=np.array([1.0]), coeffs=np.array([[1.0]])) for l in ls], conventions={}, primitive_normalization="L2")

    for label, l0, l1, identical, want in (("first basis s, p, d; second s", [0, 1, 2], [0], False, 2), ("first basis s; second s, p, f", [0], [0, 1, 3], False, 3), ("one basis s, d", [0, 2], None, True, 2)):
        got = {}

        def ctor(args, kw, got=got):
            got["n"] = args[0] if args else kw.get("n_max")
            return Rec(None, marker="go")

        b0 = basis(l0)
        b1 = None if identical else basis(l1)
        local = dict(zip(co.posparams, [b0, np.zeros((1, 3)), b1, None if identical else np.zeros((1, 3))]))
        ev = AccessorEval(prog, shcls, limit=4000)
        ev.module = co.module
        ev.stubs = {gc.qualname: ctor}
        try:
            ev._block(frag, local)
        except Raised as exc:
            ctx.violate("R13", f"compute_overlap, {label}: sizing the kernel tables raises {exc.args[0]}", co, body[iend], construct=f"table size raises: {label}")
            return
        except NotSymbolic as exc:
            raise AnalysisError(f"compute_overlap: the statements that size the kernel tables are outside the evaluation whitelist: {exc}") from exc
        n = got.get("n")
        try:
            n = int(n)
        except (TypeError, ValueError):
            raise AnalysisError(f"compute_overlap: GaussianOverlap is constructed with `{n!r}`") from None
        if n < want:
            ctx.violate("R13", f"compute_overlap, {label}: the kernel tables are built for angular momentum {n}, the bases go up to {want}: the pair that needs the higher entries raises IndexError (only one order of the two bases works)", co, body[iend], construct=f"table size: {label}")
            return
    ctx.ok("R13", "compute_overlap: GaussianOverlap is sized for the larger of the two bases' highest angular momenta, in both orders, and for the single basis", f"{co.module.relpath}:{body[iend].lineno}")
