"""Index-map obligations decided by symbolic evaluation (iodalint.symarr) of reshaping/broadcasting expressions.

Each site names an expression of the repository by what it does (the value stored under a key, the argument of a
call, the return value of a helper), evaluates it on arrays of symbols and compares the resulting entry-by-entry map
with (a) the layout the file format prescribes, or (b) the inverse of the sibling writer/reader expression.
Shared by C02 (writer/reader agreement), C03 (layout) and C04 (scaled cell / grid vectors).
"""

from __future__ import annotations

import ast

import numpy as np

from .. import AnalysisError
from ..model import src_of
from ..symarr import NotSymbolic, Sym, SymEval, first_difference, sym_array


class Words(str):
    """A symbolic text field: .split() gives symbolic numbers."""


def _value_exprs(func):
    """All 'full' value expressions of a function: assignment values, dict values, call arguments, returns."""
    for n in func.own_nodes():
        if isinstance(n, ast.Assign):
            yield n.value, n
        elif isinstance(n, ast.AugAssign):
            yield n.value, n
        elif isinstance(n, ast.Return) and n.value is not None:
            yield n.value, n
        elif isinstance(n, ast.Dict):
            for v in n.values:
                yield v, n
        elif isinstance(n, ast.Call):
            for a in n.args:
                yield a, n
            for k in n.keywords:
                yield k.value, n


def _smallest(cands):
    cands = sorted(cands, key=lambda c: len(src_of(c[0])))
    return cands[0] if cands else None


def _site_expr(func, pred, what):
    c = _smallest([(e, holder) for e, holder in _value_exprs(func) if pred(e, holder)])
    if c is None:
        raise AnalysisError(f"{func.qualname}: cannot find {what} (anchor vanished)")
    return c


def _mentions_key(e, key):
    return any(isinstance(x, ast.Subscript) and isinstance(x.slice, ast.Constant) and x.slice.value == key for x in ast.walk(e))


def _np_names(mod):
    out = set()
    for st in mod.tree.body:
        if isinstance(st, ast.Import):
            for a in st.names:
                if a.name == "numpy":
                    out.add(a.asname or "numpy")
    return out or {"np"}


class _SplitEval(SymEval):
    """SymEval + `<Words>.split()` and unit constants as symbols."""

    def __init__(self, env, prog, func, words=None):
        self.prog, self.func = prog, func
        self.words = words or {}

        def resolve(name):
            r = prog.lookup(func, func.module, name)
            if r is not None and r[0] == "global" and r[1].name == "iodata.utils":
                return Sym.atom(name)
            raise NotSymbolic(f"free name {name}")

        super().__init__(env, resolve, _np_names(func.module))

    def e_Call(self, n):
        f = n.func
        if isinstance(f, ast.Attribute) and f.attr == "split" and isinstance(f.value, ast.Name) and f.value.id in self.words:
            return list(self.words[f.value.id])
        return super().e_Call(n)


def _run(ctx, rid, func, node, title, thunk):
    """thunk() -> (got, want, description); reports ok / violation; NotSymbolic -> AnalysisError (fail closed)."""
    try:
        got, want, desc = thunk()
    except NotSymbolic as exc:
        raise AnalysisError(f"{title}: expression is outside the symbolic-evaluation whitelist: {exc}") from exc
    except (ValueError, TypeError, IndexError, KeyError) as exc:
        # numpy refused the operation on the symbolic operands (e.g. shapes that do not broadcast): undecided
        raise AnalysisError(f"{title}: `{src_of(node)[:90]}` cannot be evaluated on arrays of the documented shapes: {type(exc).__name__}: {str(exc)[:120]}") from exc
    diff = first_difference(got, want)
    if diff is None:
        ctx.ok(rid, f"{title}: {desc}", f"{func.module.relpath}:{node.lineno}")
    else:
        ctx.violate(rid, f"{title}: {diff} (index map of `{src_of(node)[:90]}` evaluated on symbols); expected {desc}", func, node, construct=f"{title}: {diff}")


# ------------------------------------------------------------------------------------------------ sites
def site_cube_cellvecs(ctx, rid):
    prog = ctx.prog
    f = prog.func("iodata.formats.cube._read_cube_header")
    e, holder = _site_expr(f, lambda e, h: isinstance(h, ast.Assign) and any(isinstance(t, ast.Name) and t.id == "cellvecs" for t in h.targets), "the cellvecs assignment")

    def thunk():
        axes, shape = sym_array("axes", (3, 3)), sym_array("n", (3,))
        got = _SplitEval({"axes": axes, "shape": shape}, prog, f).eval(e)
        want = np.array([[axes[i, j] * shape[i] for j in range(3)] for i in range(3)], dtype=object)
        return got, want, "cell vector i = step vector i x number of grid points along axis i"

    _run(ctx, rid, f, e, "cube cell vectors", thunk)


def site_vasp_axes(ctx, rid):
    """VASP grid step vectors: the whole grid reader on a model file with a skew cell (rows all different) and a
    2 x 3 x 4 grid; the cube's axes must be cell vector i divided by the number of points along axis i -- however the
    expression is written and wherever its value is kept before it reaches the cube."""
    from ..accessors import AccessorEval, Raised, Rec

    prog = ctx.prog
    f = prog.func("iodata.formats.chgcar._load_vasp_grid")
    licls = prog.cls("iodata.utils.LineIterator")
    cell = np.array([[2.0, 0.25, 0.5], [0.75, 3.0, 1.0], [1.25, 1.5, 4.0]])
    shape = np.array([2, 3, 4])
    lines = ["model\n", "   1.0\n"] + [" " + " ".join(f"{x:.6f}" for x in row) + "\n" for row in cell] + [" H\n", " 1\n", "Direct\n", " 0.0 0.0 0.0\n", "\n", " 2 3 4\n"]
    lines += [" ".join(f"{0.5 + k:.5E}" for k in range(k0, min(k0 + 5, 24))) + "\n" for k0 in range(0, 24, 5)]
    lit = Rec(licls, filename="F", fh=iter(lines), lineno=0, stack=[])
    try:
        ev = AccessorEval(prog, licls, limit=20000)
        ev.module = f.module
        ev._globals = {("iodata.utils", "angstrom"): 1.0}  # the unit factor is the header rule's business
        res = ev.run_free(f, [lit], {})
    except Raised as exc:
        ctx.violate(rid, f"VASP grid axes: the grid reader raises {exc.args[0]} on a model file", f, f.node, construct="VASP grid axes: raises")
        return
    except NotSymbolic as exc:
        raise AnalysisError(f"VASP grid axes: chgcar._load_vasp_grid is outside the evaluation whitelist: {exc}") from exc
    cube = res.get("cube") if isinstance(res, dict) else None
    got = cube.fields.get("axes") if isinstance(cube, Rec) else None
    want = cell / shape.reshape(-1, 1)
    try:
        got = np.asarray(got, dtype=float)
    except (TypeError, ValueError):
        got = None
    if got is None or got.shape != (3, 3):
        ctx.violate(rid, f"VASP grid axes: the cube returned for a model file has axes {got!r}", f, f.node, construct="VASP grid axes: missing")
    elif np.abs(got - want).max() > 1e-9:
        i, j = (int(v) for v in np.argwhere(np.abs(got - want) > 1e-9)[0])
        ctx.violate(rid, f"VASP grid axes: component {j} of step vector {i} is {got[i, j]:.6g}; cell vector {i} is {list(cell[i])} and the grid has {int(shape[i])} points along it: expected {want[i, j]:.6g} (step vector i = cell vector i / number of points along axis i)", f, f.node, construct=f"VASP grid axes: [{i},{j}]")
    else:
        ctx.ok(rid, "VASP grid axes: grid step vector i = cell vector i / number of grid points along axis i (whole reader on a skew model cell)", f"{f.module.relpath}:{f.lineno}")


def site_vasp_direct(ctx, rid):
    prog = ctx.prog
    f = prog.func("iodata.formats.chgcar._load_vasp_header")
    e, holder = _site_expr(f, lambda e, h: isinstance(h, ast.Assign) and any(isinstance(x, ast.Name) and x.id == "cellvecs" for x in ast.walk(e)) and any(isinstance(t, ast.Name) and t.id == "atcoords" for t in h.targets), "the fractional-to-Cartesian conversion")

    def thunk():
        fr, cv = sym_array("frac", (2, 3)), sym_array("cellvecs", (3, 3))
        got = _SplitEval({"atcoords": [list(r) for r in fr], "cellvecs": cv}, prog, f).eval(e)
        want = np.array([[sum((fr[a, i] * cv[i, j] for i in range(3)), Sym.const(0)) for j in range(3)] for a in range(2)], dtype=object)
        return got, want, "r = sum_i frac_i * (cell vector i), cell vectors being the rows"

    _run(ctx, rid, f, e, "VASP direct coordinates", thunk)


def site_extxyz_lattice(ctx, rid):
    """The Lattice converter of the extended-XYZ title parser (the nested function that reshapes to 3 x 3), interpreted
    as a whole on the nine numbers of a model Lattice value, with angstrom standing for 1000."""
    from ..accessors import AccessorEval, Raised
    from ..symarr import NotSymbolic

    prog = ctx.prog
    outer = prog.func("iodata.formats.extxyz._parse_title")
    cands = [g for g in outer.nested.values() if any(isinstance(x, ast.Call) and getattr(x.func, "attr", "") == "reshape" for x in ast.walk(g.node))]
    if len(cands) != 1:
        raise AnalysisError("extxyz._parse_title: cannot find the Lattice converter")
    g = cands[0]
    A = 1000.0
    nums = [1.5, 0.25, -0.5, 0.75, 2.5, 0.125, -1.0, 0.375, 3.5]
    ev = AccessorEval(prog, None, limit=4000)
    ev.module = g.module
    ev._globals = {("iodata.utils", "angstrom"): A}
    try:
        got = ev.run_free(g, [" ".join(f"{v:.8f}" for v in nums)], {})
    except Raised as exc:
        ctx.violate(rid, f"extended-XYZ Lattice: the converter raises {exc.args[0]} on nine numbers", g, g.node, construct="extxyz lattice raises")
        return
    except NotSymbolic as exc:
        raise AnalysisError(f"extended-XYZ Lattice converter is outside the evaluation whitelist: {exc}") from exc
    want = np.array(nums).reshape(3, 3) * A
    desc = 'Lattice="a1x a1y a1z a2x a2y a2z a3x a3y a3z" in angstrom: row i of cellvecs is lattice vector i'
    got_ = np.asarray(got, dtype=float) if isinstance(got, np.ndarray) else None
    if got_ is None or got_.shape != (3, 3) or np.abs(got_ - want).max() > 1e-6:
        k = tuple(int(v) for v in np.argwhere(np.abs(got_ - want) > 1e-6)[0]) if got_ is not None and got_.shape == (3, 3) else None
        ctx.violate(rid, f"extended-XYZ Lattice: " + (f"cellvecs[{k[0]}, {k[1]}] is {got_[k]:g} (angstrom = {A:g}), expected number {3 * k[0] + k[1] + 1} of the value x angstrom = {want[k]:g}" if k else f"the converter returns {got!r}") + f"; expected {desc}", g, g.node, construct="extxyz lattice: entries misplaced or unconverted")
    else:
        ctx.ok(rid, f"extended-XYZ Lattice: {desc}", f"{g.module.relpath}:{g.lineno}")


def _fchk_pair(ctx, rid, label, writer_env_builder, reader_env_builder, shape, desc, want=None):
    prog = ctx.prog
    lo = prog.func("iodata.formats.fchk.load_one")
    do = prog.func("iodata.formats.fchk.dump_one")
    readers = [lo] + [g for g in prog.callees_closure([lo]) if g.module is lo.module]
    rc = None
    for g in readers:
        c = _smallest([(e, h) for e, h in _value_exprs(g) if _mentions_key(e, label) and not isinstance(e, ast.Subscript) and not (isinstance(e, ast.Call) and getattr(e.func, "attr", "") == "get")])
        if c is not None:
            rc = (g, c[0])
            break
    wc = None
    for n in do.own_nodes():
        if isinstance(n, ast.Call) and n.args and isinstance(n.args[0], ast.Constant) and n.args[0].value == label and len(n.args) >= 2:
            wc = n.args[1]
    if wc is None:
        raise AnalysisError(f"fchk: cannot find the writer expression of '{label}'")
    C = sym_array("x", shape)

    def thunk():
        wenv = writer_env_builder(C)
        apply_rebindings(prog, do, wenv, wc.lineno, ("signs", "permutation"))
        flat = _SplitEval(wenv, prog, do).eval(deref_local(do, wc, wenv, prog))
        flat = np.asarray(flat, dtype=object)
        if flat.ndim != 1:
            raise NotSymbolic("writer does not produce a flat sequence")
        if rc is None:
            raise NotSymbolic("reader expression not found")
        g, re_ = rc
        renv = reader_env_builder(flat)
        got = _SplitEval(renv, prog, g).eval(re_)
        return got, (C if want is None else want), desc

    holder = rc[1] if rc else wc
    _run(ctx, rid, rc[0] if rc else do, holder, f"FCHK '{label}' (writer then reader)", thunk)


def deref_local(func, expr, env, prog=None):
    """Inline locals that are not inputs of the evaluation: the unique definition, or (when a name is assigned more
    than once) the latest assignment that dominates the use."""
    from ..astutil import assignments_to, single_def
    from ..cfg import cfg_of
    import copy

    use_stmt = None
    if prog is not None:
        pm = prog.parents(func)
        cur = expr
        while cur is not None and not isinstance(cur, ast.stmt):
            cur = pm.get(id(cur))
        use_stmt = cur

    def reaching(name):
        d = single_def(func, name)
        if d is not None or use_stmt is None or name in func.params:
            return d
        cfg = cfg_of(func)
        best = None
        for st, val, extra in assignments_to(func, name):
            if extra is not None or val is None or not isinstance(st, ast.stmt):
                continue
            if st.lineno < use_stmt.lineno and cfg.dominates(st, use_stmt) and (best is None or st.lineno > best[0].lineno):
                best = (st, val)
        if best is None:
            return None
        # no other assignment between the chosen one and the use
        for st, val, extra in assignments_to(func, name):
            if isinstance(st, ast.stmt) and best[0].lineno < st.lineno < use_stmt.lineno:
                return None
        return best[1]

    class Sub(ast.NodeTransformer):
        def __init__(self):
            self.depth = 0

        def visit_Name(self, n):
            if n.id in env or self.depth > 4:
                return n
            d = reaching(n.id)
            if d is None:
                return n
            self.depth += 1
            r = self.visit(copy.deepcopy(d))
            self.depth -= 1
            return r

    return Sub().visit(copy.deepcopy(expr))


def apply_rebindings(prog, func, env, before_line, names):
    """Re-bindings `x = <expr of x>` of evaluation inputs between their definition and the use site."""
    for st_ in sorted((n for n in func.own_nodes() if isinstance(n, ast.Assign) and len(n.targets) == 1 and isinstance(n.targets[0], ast.Name) and n.targets[0].id in names and n.lineno < before_line and n.targets[0].id in {x.id for x in ast.walk(n.value) if isinstance(x, ast.Name)}), key=lambda n: n.lineno):
        env[st_.targets[0].id] = _SplitEval(env, prog, func).eval(st_.value)
    return env


def _mo_data(full):
    """A stand-in for `data.mo` whose alpha/beta blocks are the two halves of one symbolic matrix."""
    n = full.shape[1] // 2
    return {"coeffs": full, "coeffsa": full[:, :n], "coeffsb": full[:, n:], "norba": n, "norbb": n, "norb": 2 * n}


def site_fchk_mo(ctx, rid):
    # coefficient matrix: rows = basis functions (3), columns = orbitals (2 alpha + 2 beta); the file lists orbital
    # after orbital.  Conventions are taken as identity here (their application is C01's business).
    prog = ctx.prog
    do = prog.func("iodata.formats.fchk.dump_one")
    dparam = do.posparams[1]
    full = sym_array("x", (3, 4))
    ones = np.array([Sym.const(1)] * 3, dtype=object)
    for label, nvar, block in (("Alpha MO coefficients", "norba", full[:, :2]), ("Beta MO coefficients", "norbb", full[:, 2:])):
        _fchk_pair(
            ctx, rid, label,
            lambda C: {dparam: {"mo": _mo_data(full)}, "permutation": [0, 1, 2], "signs": ones},
            lambda flat, label=label, nvar=nvar: {"fchk": {label: flat}, nvar: 2, "nbasis": 3},
            (3, 2),
            "entry (basis function i, orbital j) comes back where it was (the file lists one orbital after the other)",
            want=block,
        )


class _Conditional(Exception):
    pass


def _bind_single_def_locals(prog, f, env, expr, depth=0):
    """Locals of `f` that `expr` reads, that are not in `env` yet and are bound exactly once to an expression over
    names that can be evaluated (`signs_column = signs.reshape(-1, 1)`): evaluated into env."""
    from ..astutil import single_def

    if depth > 3:
        return
    for x in ast.walk(expr):
        if isinstance(x, ast.Name) and isinstance(x.ctx, ast.Load) and x.id not in env and x.id in getattr(f, "locals", ()) and x.id not in f.params:
            d = single_def(f, x.id)
            if d is None:
                continue
            _bind_single_def_locals(prog, f, env, d, depth + 1)
            try:
                env[x.id] = _SplitEval(env, prog, f).eval(d)
            except NotSymbolic:
                pass


def site_writer_conventions(ctx, rid):
    """Rows written = signs[r] * coefficients[permutation[r]] for every wavefunction writer (evaluated on symbols)."""
    prog = ctx.prog
    cc = prog.func("iodata.convert.convert_conventions")
    n = 0
    for short in ("fchk", "molden", "molekel", "wfn", "wfx"):
        do = prog.format_op(short, "dump_one")
        funcs = [do] + [g for g in prog.callees_closure([do]) if g.module is do.module and g is not do]
        for f in funcs:
            pairs = []
            for nd in f.own_nodes():
                if isinstance(nd, ast.Assign) and isinstance(nd.value, ast.Call) and len(nd.targets) == 1 and isinstance(nd.targets[0], ast.Tuple) and len(nd.targets[0].elts) == 2:
                    cs = next((c for c in f.calls if c.node is nd.value), None)
                    if cs is not None and cc in cs.callees and all(isinstance(e, ast.Name) for e in nd.targets[0].elts):
                        pairs.append((nd.targets[0].elts[0].id, nd.targets[0].elts[1].id))
            if not pairs:
                continue
            pv, sv = pairs[0]
            dparam = next((p_ for p_ in f.posparams if p_ == "data"), None) or (f.posparams[1] if len(f.posparams) > 1 else f.posparams[0])
            sites = []
            for e, holder in _value_exprs(f):
                # an argument of a numpy function is a sub-expression of the value being built, not a value of its own
                if isinstance(holder, ast.Call):
                    root = holder.func
                    while isinstance(root, ast.Attribute):
                        root = root.value
                    if isinstance(root, ast.Name) and root.id in ("np", "numpy"):
                        continue
                names = {x.id for x in ast.walk(e) if isinstance(x, ast.Name)}
                # every expression that takes the orbital coefficients as a value is a site, also one that applies only
                # one half of the conversion (or none): unless later statements apply the rest to its result, it is wrong
                pm = prog.parents(f)
                uses = [x for x in ast.walk(e) if isinstance(x, ast.Attribute) and x.attr.startswith("coeffs") and isinstance(x.value, ast.Attribute) and x.value.attr == "mo"]
                uses = [x for x in uses if not (isinstance(pm.get(id(x)), ast.Attribute) and pm[id(x)].attr in ("shape", "ndim", "dtype", "size")) and not isinstance(pm.get(id(x)), ast.Compare)]
                # only the shape is taken: np.empty_like(C), np.zeros_like(C)
                uses = [x for x in uses if not (isinstance(pm.get(id(x)), ast.Call) and isinstance(pm[id(x)].func, ast.Attribute) and pm[id(x)].func.attr in ("empty_like", "zeros_like", "ones_like", "shape"))]
                if uses:
                    sites.append((e, holder))
            # keep the smallest expression per holder statement
            best = {}
            for e, holder in sites:
                k = id(holder)
                if k not in best or len(src_of(e)) < len(src_of(best[k][0])):
                    best[k] = (e, holder)
            for e, holder in best.values():
                n += 1
                full = sym_array("c", (3, 4))
                sg = sym_array("s", (3,))
                perm = [2, 0, 1]
                attr = next(x.attr for x in ast.walk(e) if isinstance(x, ast.Attribute) and x.attr.startswith("coeffs"))
                src = _mo_data(full)[attr]

                def thunk(e=e, f=f, src=src, sg=sg, perm=perm, full=full, dparam=dparam, pv=pv, sv=sv):
                    env = {dparam: {"mo": _mo_data(full)}, pv: perm, sv: sg}
                    apply_rebindings(prog, f, env, e.lineno, (pv, sv))  # e.g. signs = signs.reshape(-1, 1)
                    _bind_single_def_locals(prog, f, env, e)  # e.g. signs_column = signs.reshape(-1, 1)
                    got = _SplitEval(env, prog, f).eval(e)
                    # a two-step application (`c = C[permutation]` ... `c * signs`): follow the local name
                    cur, hold = e, holder
                    for _ in range(3):
                        if not (isinstance(hold, ast.Assign) and len(hold.targets) == 1 and isinstance(hold.targets[0], ast.Name)):
                            break
                        t = hold.targets[0].id
                        nxt = None
                        for e2, h2 in _value_exprs(f):
                            if e2.lineno > cur.lineno and h2 is not hold:
                                nm2 = {x.id for x in ast.walk(e2) if isinstance(x, ast.Name)}
                                if t in nm2 and (pv in nm2 or sv in nm2) and (nxt is None or len(src_of(e2)) < len(src_of(nxt[0]))):
                                    nxt = (e2, h2)
                        if nxt is None:
                            break
                        # the follow-up must run on every path that leaves the first statement normally: a conversion
                        # applied under a condition ("only for f shells") leaves the other paths unconverted
                        from ..cfg import EXIT, cfg_of

                        cfg_ = cfg_of(f)
                        pm_ = prog.parents(f)

                        def _stmt(nd_):
                            while not isinstance(nd_, ast.stmt):
                                nd_ = pm_[id(nd_)]
                            return nd_

                        if not cfg_.must_pass([EXIT], [cfg_.idx(_stmt(nxt[1]))], start=cfg_.idx(_stmt(hold))):
                            raise _Conditional(src_of(nxt[0]))
                        env[t] = got
                        got = _SplitEval(env, prog, f).eval(nxt[0])
                        cur, hold = nxt
                    want = np.array([[sg[r] * src[perm[r], j] for j in range(src.shape[1])] for r in range(3)], dtype=object)
                    return got, want, "row r of the written block = signs[r] x source row permutation[r] (index with the permutation first, then scale)"

                try:
                    _run(ctx, rid, f, e, f"{short} writer, {attr}", thunk)
                except _Conditional as exc:
                    ctx.violate(rid, f"{short} writer, {attr}: the conversion `{exc.args[0][:80]}` is applied on some paths only; on the others `{src_of(e)[:60]}` is written in the object's own conventions", f, e, construct=f"{short} writer, {attr}: conversion applied conditionally")
    # the permutation used as a store index scatters (inverse permutation)
    for short in ("fchk", "molden", "molekel", "wfn", "wfx"):
        do = prog.format_op(short, "dump_one")
        for f in [do] + [g for g in prog.callees_closure([do]) if g.module is do.module and g is not do]:
            pv_names = set()
            for nd in f.own_nodes():
                if isinstance(nd, ast.Assign) and isinstance(nd.value, ast.Call) and len(nd.targets) == 1 and isinstance(nd.targets[0], ast.Tuple) and len(nd.targets[0].elts) == 2:
                    cs = next((c for c in f.calls if c.node is nd.value), None)
                    if cs is not None and cc in cs.callees and isinstance(nd.targets[0].elts[0], ast.Name):
                        pv_names.add(nd.targets[0].elts[0].id)
            for nd in f.own_nodes():
                if isinstance(nd, ast.Subscript) and isinstance(nd.ctx, ast.Store) and any(isinstance(x, ast.Name) and x.id in pv_names for x in ast.walk(nd.slice)):
                    n += 1
                    ctx.violate(rid, f"{short} writer stores through the permutation (`{src_of(nd)} = ...`): rows are scattered, i.e. the inverse permutation is applied; written row r must be signs[r] x source row permutation[r]", f, nd)
    if n < 8:
        raise AnalysisError(f"only {n} convention-application expressions found in the wavefunction writers (expected >= 8)")


def site_fchk_coords(ctx, rid):
    _fchk_pair(ctx, rid, "Current cartesian coordinates", lambda C: {"data": {"atcoords": C}}, lambda flat: {"fchk": {"Current cartesian coordinates": flat}}, (2, 3), "coordinate (atom a, component k) comes back where it was")


def site_json_geometry(ctx, rid):
    prog = ctx.prog
    mod = prog.module("iodata.formats.json_qcschema")
    wsite = rsite = None
    for f in prog.package_funcs():
        if f.module is not mod:
            continue
        for n in f.own_nodes():
            if isinstance(n, ast.Assign) and len(n.targets) == 1 and isinstance(n.targets[0], ast.Subscript) and isinstance(n.targets[0].slice, ast.Constant):
                k = n.targets[0].slice.value
                if k == "geometry" and "atcoords" in src_of(n.value):
                    wsite = (f, n.value)
                if k == "atcoords" and _mentions_key(n.value, "geometry"):
                    rsite = (f, n.value)
    if wsite is None or rsite is None:
        raise AnalysisError("json_qcschema: cannot find the geometry writer/reader expressions")

    def thunk():
        C = sym_array("x", (2, 3))
        wf, we = wsite
        dparam = next((x.value.id for x in ast.walk(we) if isinstance(x, ast.Attribute) and x.attr == "atcoords" and isinstance(x.value, ast.Name)), "data")
        flat = _SplitEval({dparam: {"atcoords": C}}, prog, wf).eval(we)
        rf, re_ = rsite
        src = next((x.value.id for x in ast.walk(re_) if isinstance(x, ast.Subscript) and isinstance(x.slice, ast.Constant) and x.slice.value == "geometry" and isinstance(x.value, ast.Name)), "mol")
        got = _SplitEval({src: {"geometry": list(flat)}}, prog, rf).eval(re_)
        return got, C, "coordinate (atom a, component k) comes back where it was"

    _run(ctx, rid, rsite[0], rsite[1], "QCSchema geometry (writer then reader)", thunk)


def site_wfx_mo(ctx, rid):
    prog = ctx.prog
    f = prog.func("iodata.formats.wfx.load_data_wfx")
    e, holder = _site_expr(f, lambda e, h: isinstance(h, ast.Assign) and _mentions_key(e, "mo_coeffs") and any(isinstance(x, ast.Call) and getattr(x.func, "attr", "") == "reshape" for x in ast.walk(e)), "the mo_coeffs reshape")

    def thunk():
        flat = sym_array("c", (6,))
        got = _SplitEval({"result": {"mo_coeffs": flat, "num_primitives": 3}}, prog, f).eval(e)
        want = np.array([[flat[j * 3 + i] for j in range(2)] for i in range(3)], dtype=object)
        return got, want, "the file lists the primitive coefficients of one orbital after the other: entry (primitive i, orbital j) = item j*nprim + i"

    _run(ctx, rid, f, e, "WFX primitive coefficients", thunk)


def site_molden_mo(ctx, rid):
    """Molden `[MO]` reader: the whole section reader on a model stream (two alpha orbitals and one beta orbital over
    three basis functions, all coefficients different): each orbital read becomes a column of its spin block."""
    from ..accessors import AccessorEval, Raised, Rec

    prog = ctx.prog
    f = prog.func("iodata.formats.molden._load_helper_coeffs")
    licls = prog.cls("iodata.utils.LineIterator")
    # (the beta orbital stands between the two alpha orbitals: every orbital carries its own spin label, the format
    # fixes no order)
    orbs = [("a1", -1.5, "Alpha", 2.0, [0.1, 0.2, 0.3]), ("a1", -1.25, "Beta", 1.0, [0.7, 0.8, 0.9]), ("b2", 0.5, "Alpha", 0.0, [0.4, 0.5, 0.6])]
    lines = []
    for sym, ene, spin, occ, col in orbs:
        lines += [f" Sym= {sym}\n", f" Ene= {ene}\n", f" Spin= {spin}\n", f" Occup= {occ}\n"] + [f"{i + 1:4d} {c:.6f}\n" for i, c in enumerate(col)]
    lit = Rec(licls, filename="F", fh=iter(lines), lineno=0, stack=[])
    try:
        ev = AccessorEval(prog, licls, limit=8000)
        ev.module = f.module
        res = ev.run_free(f, [lit], {})
        (occsa, ca, ena, ira), (occsb, cb, enb, irb) = res
        ca, cb = np.asarray(ca, dtype=float), np.asarray(cb, dtype=float)
    except Raised as exc:
        ctx.violate(rid, f"Molden [MO] reader raises {exc.args[0]} on a model section of three orbitals", f, f.node, construct="Molden coeffs: raises")
        return
    except NotSymbolic as exc:
        raise AnalysisError(f"molden._load_helper_coeffs is outside the evaluation whitelist: {exc}") from exc
    except (TypeError, ValueError) as exc:
        raise AnalysisError(f"molden._load_helper_coeffs: unexpected result of the model evaluation: {exc}") from exc
    want_a = np.array([orbs[0][4], orbs[2][4]]).T
    want_b = np.array([orbs[1][4]]).T
    for var, got, want in (("coeffsa", ca, want_a), ("coeffsb", cb, want_b)):
        if got.shape != want.shape or np.abs(got - want).max() > 1e-9:
            ctx.violate(rid, f"Molden {var}: the orbitals of the model section (alpha, beta, alpha by their Spin= labels) come back as {got.tolist()} (shape {got.shape}); each orbital read from the file becomes a column: entry (basis function i, orbital j) = j-th orbital, i-th coefficient, expected {want.tolist()}", f, f.node, construct=f"Molden {var}: orientation")
        else:
            ctx.ok(rid, f"Molden {var}: each orbital read from the file becomes a column (whole section reader on a model stream)", f"{f.module.relpath}:{f.lineno}")


SITES = {
    "cube_cellvecs": site_cube_cellvecs,
    "vasp_axes": site_vasp_axes,
    "vasp_direct": site_vasp_direct,
    "extxyz_lattice": site_extxyz_lattice,
    "fchk_mo": site_fchk_mo,
    "writer_conventions": site_writer_conventions,
    "fchk_coords": site_fchk_coords,
    "json_geometry": site_json_geometry,
    "wfx_mo": site_wfx_mo,
    "molden_mo": site_molden_mo,
}


def check_index_maps(ctx, rid, names):
    for nm in names:
        SITES[nm](ctx, rid)
