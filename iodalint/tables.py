"""E7 helpers -- discovery and algebra of convention tables."""

from __future__ import annotations

import ast

from .consteval import ConstEval, NotConstant
from .model import Program


def is_conv_key(k):
    return isinstance(k, tuple) and len(k) == 2 and isinstance(k[0], int) and not isinstance(k[0], bool) and k[1] in ("c", "p")


def looks_like_conventions(v):
    return isinstance(v, dict) and len(v) > 0 and all(is_conv_key(k) for k in v) and all(isinstance(x, (list, tuple)) for x in v.values())


def _dict_literal_is_conv(node: ast.Dict):
    if not node.keys:
        return False
    for k in node.keys:
        if not (isinstance(k, ast.Tuple) and len(k.elts) == 2 and isinstance(k.elts[1], ast.Constant) and k.elts[1].value in ("c", "p")):
            return False
    return True


def discover_convention_tables(prog: Program, ce: ConstEval):
    """All convention tables in the package.

    Returns a list of (label, relpath, lineno, table_dict, func_or_None):
      * module-level bindings whose constant value has convention shape
        (literal dicts and initialiser results such as HORTON2_CONVENTIONS);
      * function-local dict literals of convention shape (molden's ORCA table).
    """
    out = []
    seen_nodes = set()
    for mod in prog.modules.values():
        if not mod.name.startswith("iodata"):
            continue
        for name, b in mod.bindings.items():
            if b.kind != "assign":
                continue
            # cheap pre-filter: literal dict of the right shape, or a call (initialiser)
            v = b.value
            cand = False
            if isinstance(v, ast.Dict) and _dict_literal_is_conv(v):
                cand = True
                seen_nodes.add(id(v))
            elif isinstance(v, ast.Call) and b.index is not None:
                cand = True
            elif isinstance(v, ast.Call) and isinstance(v.func, ast.Name):
                cand = name.isupper()
            if not cand:
                continue
            try:
                val = ce.global_value(mod, name)
            except NotConstant:
                continue
            if looks_like_conventions(val):
                out.append((f"{mod.name}.{name}", mod.relpath, b.stmt.lineno, val, None))
        for f in mod.funcs:
            for n in f.own_nodes():
                if isinstance(n, ast.Dict) and id(n) not in seen_nodes and _dict_literal_is_conv(n):
                    try:
                        val = ce.eval_in_func(f, n)
                    except NotConstant:
                        continue
                    if looks_like_conventions(val):
                        out.append((f"{f.qualname}:<dict@{n.lineno - f.node.lineno}>", mod.relpath, n.lineno, val, f))
    return out


def cart_labels(l):
    if l == 0:
        return ["1"]
    out = []
    for nx in range(l, -1, -1):
        for ny in range(l - nx, -1, -1):
            nz = l - nx - ny
            out.append("x" * nx + "y" * ny + "z" * nz)
    return out


def pure_labels(l):
    out = ["c0"]
    for m in range(1, l + 1):
        out += [f"c{m}", f"s{m}"]
    return out


def check_entry(key, labels):
    """Return a list of problems of one table entry (empty if complete/duplicate-free)."""
    l, kind = key
    probs = []
    if not all(isinstance(x, str) for x in labels):
        return ["non-string label"]
    stripped = []
    for x in labels:
        if x.startswith("--"):
            probs.append(f"label {x!r} has more than one sign prefix")
        stripped.append(x[1:] if x.startswith("-") else x)
    want = cart_labels(l) if kind == "c" else pure_labels(l)
    if kind == "p" and l < 2:
        want = None
    if want is None:
        return probs
    dup = sorted({x for x in stripped if stripped.count(x) > 1})
    if dup:
        probs.append(f"duplicate label(s) {dup}")
    missing = [x for x in want if x not in stripped]
    extra = [x for x in stripped if x not in want]
    if missing:
        probs.append(f"missing function(s) {missing}")
    if extra:
        probs.append(f"unknown label(s) {extra}")
    if len(labels) != len(want) and not (dup or missing or extra):
        probs.append(f"{len(labels)} labels, expected {len(want)}")
    return probs


def spec_label(label: str) -> str:
    """Stable name of a table for the frozen specification (function-local tables lose their offset)."""
    if ":<dict@" in label:
        return label.split(":<dict@")[0] + ":<local>"
    return label
