"""Glob-language algebra (fnmatch syntax: * ? [seq]) by product automata over a finite alphabet."""

from __future__ import annotations


def parse(pat):
    """Pattern -> list of tokens: ('c', ch) | ('?',) | ('*',) | ('[', frozenset, negated)"""
    out = []
    i = 0
    while i < len(pat):
        c = pat[i]
        if c == "*":
            if not out or out[-1] != ("*",):
                out.append(("*",))
        elif c == "?":
            out.append(("?",))
        elif c == "[":
            j = pat.find("]", i + 2 if pat[i + 1 : i + 2] in ("!", "]") else i + 1)
            if j < 0:
                out.append(("c", c))
            else:
                body = pat[i + 1 : j]
                neg = body.startswith("!")
                if neg:
                    body = body[1:]
                chars = set()
                k = 0
                while k < len(body):
                    if k + 2 < len(body) and body[k + 1] == "-":
                        chars |= {chr(x) for x in range(ord(body[k]), ord(body[k + 2]) + 1)}
                        k += 3
                    else:
                        chars.add(body[k])
                        k += 1
                out.append(("[", frozenset(chars), neg))
                i = j
        else:
            out.append(("c", c))
        i += 1
    return out


def alphabet(*pats):
    chars = set()
    for p in pats:
        for t in parse(p):
            if t[0] == "c":
                chars.add(t[1])
            elif t[0] == "[":
                chars |= set(t[1])
    return sorted(chars) + ["\0"]  # \0 stands for "any other character"


def step(tokens, states, ch):
    """NFA step: states are positions in tokens (0..len)."""
    out = set()
    for s in states:
        if s >= len(tokens):
            continue
        t = tokens[s]
        if t[0] == "*":
            out.add(s)  # star consumes the char and stays
        elif t[0] == "?":
            out.add(s + 1)
        elif t[0] == "c":
            if t[1] == ch:
                out.add(s + 1)
        elif t[0] == "[":
            inside = ch in t[1]
            if inside != t[2]:
                out.add(s + 1)
    return closure(tokens, out)


def closure(tokens, states):
    out = set(states)
    todo = list(states)
    while todo:
        s = todo.pop()
        if s < len(tokens) and tokens[s][0] == "*" and s + 1 not in out:
            out.add(s + 1)
            todo.append(s + 1)
    return frozenset(out)


def _explore(p1, p2):
    """Reachable pairs of NFA state-sets of the product automaton."""
    t1, t2 = parse(p1), parse(p2)
    alpha = alphabet(p1, p2)
    start = (closure(t1, {0}), closure(t2, {0}))
    seen = {start}
    todo = [start]
    while todo:
        a, b = todo.pop()
        for ch in alpha:
            n = (step(t1, a, ch), step(t2, b, ch))
            if n not in seen:
                seen.add(n)
                todo.append(n)
    return t1, t2, seen


def intersects(p1, p2) -> bool:
    t1, t2, seen = _explore(p1, p2)
    return any(len(t1) in a and len(t2) in b for a, b in seen)


def included(p1, p2) -> bool:
    """L(p1) is a subset of L(p2)."""
    t1, t2, seen = _explore(p1, p2)
    return not any(len(t1) in a and len(t2) not in b for a, b in seen)
