"""E2 -- whitelisted constant evaluator (partial evaluation of program constants).

Evaluates module-level literals, zero-/constant-argument initialiser functions,
decorator argument lists and format strings straight from the AST.  It never
imports the analysed module.  Anything outside the whitelist raises
``NotConstant`` (callers decide whether that is an ANALYSIS-ERROR).
"""

from __future__ import annotations

import ast
import operator as _op

from . import AnalysisError
from .model import Func, Module, Program


class NotConstant(Exception):
    pass


class _Return(Exception):
    def __init__(self, value):
        self.value = value


class _Break(Exception):
    pass


class _Continue(Exception):
    pass


class Raised(Exception):
    """The evaluated code raises an exception of class `cls` (finite-domain evaluation of guards)."""

    def __init__(self, cls):
        super().__init__(cls)
        self.cls = cls


class Record:
    """A constant object with named attributes (stands for `self` in finite-domain evaluation of a method)."""

    def __init__(self, **attrs):
        self.attrs = dict(attrs)

    def __repr__(self):
        return f"Record({self.attrs})"


class Sink:
    """Stands for an output file in finite-domain evaluation: records what is written."""

    def __init__(self):
        self.text = []

    def __repr__(self):
        return f"Sink({self.text})"


class LineFeed:
    """Stands for a LineIterator in finite-domain evaluation: hands out the given constant lines."""

    def __init__(self, lines):
        self.lines = list(lines)
        self.pos = 0

    def take(self):
        if self.pos >= len(self.lines):
            raise NotConstant("line feed exhausted")
        self.pos += 1
        return self.lines[self.pos - 1]


def feed_next(feed, *default):
    if not isinstance(feed, LineFeed):
        raise NotConstant("next() on something else than the line feed")
    return feed.take()


class Opaque:
    """A value known only by name (e.g. a unit constant or external object)."""

    def __init__(self, name):
        self.name = name

    def __repr__(self):
        return f"<opaque {self.name}>"

    def __eq__(self, other):
        return isinstance(other, Opaque) and other.name == self.name

    def __hash__(self):
        return hash(("opaque", self.name))


class FuncRef:
    def __init__(self, func):
        self.func = func

    def __repr__(self):
        return f"<funcref {self.func.qualname}>"


_BINOPS = {
    ast.Add: _op.add,
    ast.Sub: _op.sub,
    ast.Mult: _op.mul,
    ast.Div: _op.truediv,
    ast.FloorDiv: _op.floordiv,
    ast.Mod: _op.mod,
    ast.Pow: _op.pow,
    ast.BitOr: _op.or_,
    ast.BitAnd: _op.and_,
}
_CMPOPS = {
    ast.Eq: _op.eq,
    ast.NotEq: _op.ne,
    ast.Lt: _op.lt,
    ast.LtE: _op.le,
    ast.Gt: _op.gt,
    ast.GtE: _op.ge,
    ast.Is: _op.is_,
    ast.IsNot: _op.is_not,
    ast.In: lambda a, b: a in b,
    ast.NotIn: lambda a, b: a not in b,
}
_PURE_BUILTINS = {
    "len": len,
    "range": range,
    "list": list,
    "tuple": tuple,
    "dict": dict,
    "set": set,
    "frozenset": frozenset,
    "sorted": sorted,
    "reversed": lambda x: list(reversed(x)),
    "zip": lambda *a: list(zip(*a)),
    "enumerate": lambda x, start=0: list(enumerate(x, start)),
    "str": str,
    "int": int,
    "float": float,
    "bool": bool,
    "abs": abs,
    "min": min,
    "max": max,
    "sum": sum,
    "any": any,
    "all": all,
    "round": round,
    "divmod": divmod,
    "repr": repr,
}
_SAFE_METHODS = {
    str: {
        "format", "join", "lower", "upper", "strip", "lstrip", "rstrip", "split", "startswith",
        "endswith", "replace", "title", "center", "ljust", "rjust", "index", "find", "count",
        "capitalize", "zfill", "splitlines", "isdigit", "isalpha",
    },
    list: {"copy", "index", "count", "append", "extend", "insert", "pop", "reverse", "sort"},
    tuple: {"index", "count"},
    dict: {"copy", "get", "items", "keys", "values", "update", "setdefault", "pop"},
    set: {"copy", "union", "intersection", "difference", "add", "update", "discard", "issubset", "issuperset"},
    frozenset: {"union", "intersection", "difference", "issubset", "issuperset"},
    int: {"bit_length"},
    float: {"is_integer"},
}
_MUTATORS = {"append", "extend", "insert", "pop", "reverse", "sort", "update", "setdefault", "add"}


class ConstEval:
    """Evaluate constants of a Program."""

    MAX_STEPS = 400000

    def __init__(self, prog: Program, externals=None):
        self.prog = prog
        self.cache: dict[tuple[str, str], object] = {}
        self.in_progress: set[tuple[str, str]] = set()
        self.steps = 0
        # externals: dotted name -> python value or callable (e.g. scipy.constants for C04-R3)
        self.externals = externals or {}

    # ---------------------------------------------------------------- globals
    def global_value(self, mod: Module, name: str):
        key = (mod.name, name)
        if key in self.cache:
            return self.cache[key]
        if key in self.in_progress:
            raise NotConstant(f"cyclic constant {mod.name}.{name}")
        r = self.prog.resolve_global(mod, name)
        if r is None:
            raise NotConstant(f"unbound global {mod.name}.{name}")
        self.in_progress.add(key)
        try:
            val = self._resolved_value(r)
        finally:
            self.in_progress.discard(key)
        self.cache[key] = val
        return val

    def _resolved_value(self, r):
        kind = r[0]
        if kind == "global":
            _, m, nm, b = r
            key = (m.name, nm)
            if key in self.cache:
                return self.cache[key]
            env = _Env(self, m, None, {})
            val = env.eval(b.value)
            if b.index is not None:
                val = val[b.index]
            # later module-level augmented assignments / re-assignments are not folded:
            if len(b.all_values) > 1:
                raise NotConstant(f"{m.name}.{nm} is assigned more than once at module level")
            # module-level statements after the definition that fill / modify the object in place
            # (NAME[k] = v, NAME.update(...), loops doing so) are folded into the value
            later = []
            seen_def = False
            for st in m.tree.body:
                if st is b.stmt:
                    seen_def = True
                    continue
                if not seen_def or isinstance(st, (ast.FunctionDef, ast.AsyncFunctionDef, ast.ClassDef, ast.Import, ast.ImportFrom)):
                    continue
                touches = False
                for x in ast.walk(st):
                    if isinstance(x, (ast.FunctionDef, ast.Lambda, ast.ClassDef)):
                        continue
                    if isinstance(x, ast.Subscript) and isinstance(x.ctx, (ast.Store, ast.Del)) and isinstance(x.value, ast.Name) and x.value.id == nm:
                        touches = True
                    elif isinstance(x, ast.Call) and isinstance(x.func, ast.Attribute) and isinstance(x.func.value, ast.Name) and x.func.value.id == nm and x.func.attr in _MUTATORS:
                        touches = True
                    elif isinstance(x, ast.AugAssign) and isinstance(x.target, ast.Name) and x.target.id == nm:
                        touches = True
                if touches:
                    later.append(st)
            if later:
                import copy as _copy

                val = _copy.deepcopy(val)
                env2 = _Env(self, m, None, {nm: val})
                env2.run(later)
                val = env2.local[nm]
            self.cache[key] = val
            return val
        if kind == "func":
            return FuncRef(r[1])
        if kind == "external":
            if r[1] in self.externals:
                return self.externals[r[1]]
            return Opaque(r[1])
        if kind == "module":
            return Opaque("module:" + r[1].name)
        if kind == "class":
            return Opaque("class:" + r[1].qualname)
        raise NotConstant(f"cannot evaluate {r!r}")

    def eval_in_module(self, mod: Module, expr, local_env=None):
        return _Env(self, mod, None, dict(local_env or {})).eval(expr)

    def eval_in_func(self, func: Func, expr, local_env=None):
        return _Env(self, func.module, func, dict(local_env or {})).eval(expr)

    def call_function(self, func: Func, args, kwargs=None):
        return _Env(self, func.module, func, {}).call_user(func, list(args), dict(kwargs or {}))


class _Env:
    def __init__(self, ce: ConstEval, mod: Module, func, local):
        self.ce = ce
        self.mod = mod
        self.func = func
        self.local = local
        self.yields = None

    def tick(self):
        self.ce.steps += 1
        if self.ce.steps > ConstEval.MAX_STEPS:
            raise NotConstant("evaluation budget exceeded")

    # ------------------------------------------------------------ expressions
    def eval(self, n):
        self.tick()
        m = getattr(self, "e_" + type(n).__name__, None)
        if m is None:
            raise NotConstant(f"expression kind {type(n).__name__} not whitelisted")
        return m(n)

    def e_Constant(self, n):
        return n.value

    def e_Name(self, n):
        if n.id in self.local:
            return self.local[n.id]
        f = self.func
        # enclosing function locals are not available to the evaluator
        if f is not None and n.id in f.locals:
            raise NotConstant(f"local {n.id} has no constant value here")
        r = self.ce.prog.lookup(None, self.mod, n.id)
        if r is None:
            raise NotConstant(f"unbound name {n.id}")
        if r[0] == "global":
            return self.ce.global_value(r[1], r[2])
        if r[0] == "external" and r[1].startswith("builtins."):
            b = r[1].split(".", 1)[1]
            if b in _PURE_BUILTINS:
                return _PURE_BUILTINS[b]
            if b in ("True", "False", "None"):
                return {"True": True, "False": False, "None": None}[b]
            raise NotConstant(f"builtin {b} not whitelisted")
        return self.ce._resolved_value(r)

    def e_Tuple(self, n):
        return tuple(self._elts(n.elts))

    def e_List(self, n):
        return list(self._elts(n.elts))

    def e_Set(self, n):
        return set(self._elts(n.elts))

    def _elts(self, elts):
        out = []
        for e in elts:
            if isinstance(e, ast.Starred):
                out.extend(self.eval(e.value))
            else:
                out.append(self.eval(e))
        return out

    def e_Dict(self, n):
        d = {}
        for k, v in zip(n.keys, n.values):
            if k is None:
                d.update(self.eval(v))
            else:
                d[self.eval(k)] = self.eval(v)
        return d

    def e_BinOp(self, n):
        op = _BINOPS.get(type(n.op))
        if op is None:
            raise NotConstant("operator not whitelisted")
        l, r = self.eval(n.left), self.eval(n.right)
        if isinstance(l, Opaque) or isinstance(r, Opaque):
            raise NotConstant(f"arithmetic on opaque value {l!r} {r!r}")
        if isinstance(n.op, ast.Pow) and isinstance(r, (int, float)) and abs(r) > 64:
            raise NotConstant("power too large")
        if isinstance(n.op, ast.Mult):
            for a, b in ((l, r), (r, l)):
                if isinstance(a, (str, list, tuple)) and isinstance(b, int) and b > 10000:
                    raise NotConstant("repetition too large")
        try:
            return op(l, r)
        except Exception as exc:
            raise NotConstant(f"cannot apply operator: {exc}") from exc

    def e_UnaryOp(self, n):
        v = self.eval(n.operand)
        if isinstance(n.op, ast.USub):
            return -v
        if isinstance(n.op, ast.UAdd):
            return +v
        if isinstance(n.op, ast.Not):
            return not v
        raise NotConstant("unary operator not whitelisted")

    def e_BoolOp(self, n):
        if isinstance(n.op, ast.And):
            v = True
            for e in n.values:
                v = self.eval(e)
                if not v:
                    return v
            return v
        v = False
        for e in n.values:
            v = self.eval(e)
            if v:
                return v
        return v

    def e_Compare(self, n):
        left = self.eval(n.left)
        for op, c in zip(n.ops, n.comparators):
            right = self.eval(c)
            f = _CMPOPS.get(type(op))
            if f is None:
                raise NotConstant("comparison not whitelisted")
            if not f(left, right):
                return False
            left = right
        return True

    def e_IfExp(self, n):
        return self.eval(n.body) if self.eval(n.test) else self.eval(n.orelse)

    def e_Subscript(self, n):
        v = self.eval(n.value)
        if isinstance(v, Opaque):
            raise NotConstant(f"subscript of opaque {v!r}")
        idx = self.eval(n.slice)
        try:
            return v[idx]
        except Exception as exc:
            raise NotConstant(f"subscript failed: {exc}") from exc

    def e_Slice(self, n):
        return slice(
            None if n.lower is None else self.eval(n.lower),
            None if n.upper is None else self.eval(n.upper),
            None if n.step is None else self.eval(n.step),
        )

    def e_JoinedStr(self, n):
        parts = []
        for v in n.values:
            if isinstance(v, ast.Constant):
                parts.append(str(v.value))
            else:
                parts.append(self.e_FormattedValue(v))
        return "".join(parts)

    def e_FormattedValue(self, n):
        val = self.eval(n.value)
        if isinstance(val, Opaque):
            raise NotConstant("formatting an opaque value")
        if n.conversion == 114:
            val = repr(val)
        elif n.conversion == 115:
            val = str(val)
        spec = self.eval(n.format_spec) if n.format_spec is not None else ""
        return format(val, spec)

    def e_Attribute(self, n):
        r = self.ce.prog.resolve_expr(None, self.mod, n)
        if r is not None and not (isinstance(n.value, ast.Name) and n.value.id in self.local):
            if r[0] == "global":
                return self.ce.global_value(r[1], r[2])
            return self.ce._resolved_value(r)
        base = self.eval(n.value)
        if isinstance(base, Record):
            if n.attr in base.attrs:
                return base.attrs[n.attr]
            raise NotConstant(f"record has no attribute {n.attr}")
        if isinstance(base, Opaque):
            full = base.name + "." + n.attr
            if full in self.ce.externals:
                return self.ce.externals[full]
            return Opaque(full)
        raise NotConstant(f"attribute {n.attr} of a constant")

    def _comp(self, gens, i, emit):
        if i == len(gens):
            emit()
            return
        g = gens[i]
        it = self.eval(g.iter)
        it = self._iterable(it)
        for item in it:
            self.tick()
            self.assign(g.target, item)
            if all(self.eval(c) for c in g.ifs):
                self._comp(gens, i + 1, emit)

    def _iterable(self, it):
        if isinstance(it, (list, tuple, str, range, dict, set, frozenset)):
            return list(it)
        if hasattr(it, "__iter__") and type(it).__name__ in ("dict_items", "dict_keys", "dict_values", "zip", "map"):
            return list(it)
        raise NotConstant(f"cannot iterate {type(it).__name__}")

    def e_ListComp(self, n):
        out = []
        sub = self._child()
        sub._comp(n.generators, 0, lambda: out.append(sub.eval(n.elt)))
        return out

    e_GeneratorExp = e_ListComp

    def e_SetComp(self, n):
        return set(self.e_ListComp(n))

    def e_DictComp(self, n):
        out = {}
        sub = self._child()

        def emit():
            out[sub.eval(n.key)] = sub.eval(n.value)

        sub._comp(n.generators, 0, emit)
        return out

    def _child(self):
        c = _Env(self.ce, self.mod, self.func, dict(self.local))
        return c

    def e_Lambda(self, n):
        f = self.ce.prog.func_of_node.get(id(n))
        if f is None:
            raise NotConstant("unknown lambda")
        return FuncRef(f)

    def e_Call(self, n):
        fn = n.func
        args = self._elts(n.args)
        kwargs = {}
        for kw in n.keywords:
            if kw.arg is None:
                kwargs.update(self.eval(kw.value))
            else:
                kwargs[kw.arg] = self.eval(kw.value)
        # method call on a constant
        if isinstance(fn, ast.Attribute):
            r = self.ce.prog.resolve_expr(None, self.mod, fn)
            if r is None or (isinstance(fn.value, ast.Name) and fn.value.id in self.local):
                base = self.eval(fn.value)
                return self._method(base, fn.attr, args, kwargs)
        callee = self.eval(fn)
        return self._apply(callee, args, kwargs)

    def _method(self, base, attr, args, kwargs):
        if isinstance(base, Sink):
            if attr == "write" and len(args) == 1 and isinstance(args[0], str) and not kwargs:
                base.text.append(args[0])
                return len(args[0])
            raise NotConstant(f"method {attr} on an output sink not whitelisted")
        if isinstance(base, Opaque):
            return self._apply(Opaque(base.name + "." + attr), args, kwargs)
        for t, allowed in _SAFE_METHODS.items():
            if isinstance(base, t) and not (t is int and isinstance(base, bool)):
                if attr in allowed:
                    try:
                        return getattr(base, attr)(*args, **kwargs)
                    except Exception as exc:
                        raise NotConstant(f"method {attr} failed: {exc}") from exc
        raise NotConstant(f"method {attr} on {type(base).__name__} not whitelisted")

    def _apply(self, callee, args, kwargs):
        if isinstance(callee, FuncRef):
            return self.call_user(callee.func, args, kwargs)
        if isinstance(callee, Opaque):
            nm = callee.name
            if nm in self.ce.externals and callable(self.ce.externals[nm]):
                return self.ce.externals[nm](*args, **kwargs)
            if nm in ("numpy.array", "numpy.asarray"):
                v = args[0]
                return tuple(v) if isinstance(v, (list, tuple)) else v
            if nm == "functools.reduce":
                fn, seq = args[0], self._iterable(args[1])
                if len(args) > 2:
                    acc = args[2]
                else:
                    acc, seq = seq[0], seq[1:]
                for item in seq:
                    acc = self._apply(fn, [acc, item], {})
                return acc
            if nm in ("operator.iadd", "operator.add"):
                a, b = args
                if nm == "operator.iadd" and isinstance(a, list):
                    a += b
                    return a
                return a + b
            if nm == "copy.deepcopy" or nm == "copy.copy":
                import copy

                return copy.deepcopy(args[0])
            raise NotConstant(f"call of external {nm} not whitelisted")
        if callable(callee) and any(callee is v for v in self.ce.externals.values()):
            try:
                return callee(*args, **kwargs)
            except NotConstant:
                raise
            except Exception as exc:
                raise NotConstant(f"external stub failed: {exc}") from exc
        if callee in _PURE_BUILTINS.values():
            try:
                res = callee(*args, **kwargs)
            except Exception as exc:
                raise NotConstant(f"builtin failed: {exc}") from exc
            if isinstance(res, range) and len(res) > 100000:
                raise NotConstant("range too large")
            return res
        raise NotConstant(f"cannot call {callee!r}")

    # ------------------------------------------------------------- statements
    def assign(self, target, value):
        if isinstance(target, ast.Name):
            self.local[target.id] = value
        elif isinstance(target, (ast.Tuple, ast.List)):
            vals = list(value)
            if len(vals) != len(target.elts):
                raise NotConstant("unpack length mismatch")
            for t, v in zip(target.elts, vals):
                self.assign(t, v)
        elif isinstance(target, ast.Subscript):
            base = self.eval(target.value)
            if not isinstance(base, (list, dict)):
                raise NotConstant("store into non-container")
            base[self.eval(target.slice)] = value
        else:
            raise NotConstant("assignment target not whitelisted")

    def call_user(self, func: Func, args, kwargs):
        self.tick()
        env = _Env(self.ce, func.module, func, {})
        # bind parameters
        pos = list(func.posparams)
        if len(args) > len(pos) and not func.vararg:
            raise NotConstant("too many arguments")
        for p, a in zip(pos, args):
            env.local[p] = a
        if func.vararg:
            env.local[func.vararg] = tuple(args[len(pos):])
        for k, v in kwargs.items():
            if k in func.params:
                env.local[k] = v
            elif func.kwarg:
                env.local.setdefault(func.kwarg, {})[k] = v
            else:
                raise NotConstant(f"unexpected keyword {k}")
        for p in func.posparams + func.kwonly:
            if p not in env.local:
                d = func.default_of(p)
                if d is None:
                    raise NotConstant(f"missing argument {p}")
                env.local[p] = _Env(self.ce, func.module, None, {}).eval(d)
        if func.is_generator:
            env.yields = []
        try:
            env.run(func.body)
        except _Return as r:
            if func.is_generator:
                return env.yields
            return r.value
        if func.is_generator:
            return env.yields
        return None

    def run(self, stmts):
        for st in stmts:
            self.tick()
            m = getattr(self, "s_" + type(st).__name__, None)
            if m is None:
                raise NotConstant(f"statement kind {type(st).__name__} not whitelisted")
            m(st)

    def s_Expr(self, st):
        v = st.value
        if isinstance(v, ast.Constant):
            return  # docstring
        if isinstance(v, ast.Yield):
            self.yields.append(self.eval(v.value) if v.value is not None else None)
            return
        self.eval(v)

    def s_Assign(self, st):
        val = self.eval(st.value)
        for t in st.targets:
            self.assign(t, val)

    def s_AnnAssign(self, st):
        if st.value is not None:
            self.assign(st.target, self.eval(st.value))

    def s_AugAssign(self, st):
        cur = self.eval(st.target)
        op = _BINOPS.get(type(st.op))
        if op is None:
            raise NotConstant("augmented operator not whitelisted")
        r = self.eval(st.value)
        if isinstance(cur, list) and isinstance(st.op, ast.Add):
            cur += r
            val = cur
        else:
            val = op(cur, r)
        self.assign(st.target, val)

    def s_Return(self, st):
        raise _Return(self.eval(st.value) if st.value is not None else None)

    def s_If(self, st):
        self.run(st.body if self.eval(st.test) else st.orelse)

    def s_For(self, st):
        for item in self._iterable(self.eval(st.iter)):
            self.assign(st.target, item)
            try:
                self.run(st.body)
            except _Break:
                break
            except _Continue:
                continue
        else:
            self.run(st.orelse)

    def s_While(self, st):
        while self.eval(st.test):
            self.tick()
            try:
                self.run(st.body)
            except _Break:
                break
            except _Continue:
                continue

    def s_Break(self, st):
        raise _Break()

    def s_Continue(self, st):
        raise _Continue()

    def s_Pass(self, st):
        return

    def s_Raise(self, st):
        if getattr(self.ce, "allow_raise", False) and st.exc is not None:
            e = st.exc.func if isinstance(st.exc, ast.Call) else st.exc
            nm = e.id if isinstance(e, ast.Name) else getattr(e, "attr", None)
            if nm:
                raise Raised(nm)
        raise NotConstant("initialiser raises")


def const_global(prog: Program, modname: str, name: str, ce: ConstEval = None):
    """Evaluate a module-level constant or fail closed."""
    ce = ce or ConstEval(prog)
    mod = prog.module(modname)
    try:
        return ce.global_value(mod, name)
    except NotConstant as exc:
        raise AnalysisError(f"cannot evaluate constant {modname}.{name}: {exc}") from exc
