"""Evaluation of small accessor methods (property getters / setters, a few lines each) on abstract objects.

An abstract object (``Rec``) carries, per stored field, either a symbolic array (entries are ``symarr.Sym`` atoms),
a small constant numeric array, a constant, or None.  A getter or setter of the class is interpreted statement by
statement (if / return / raise / assignment to a local, to ``self.<field>``, to an array slice) with expressions
evaluated by ``symarr.SymEval``; reading ``self.<name>`` where ``name`` is a property evaluates that getter on the
same object.  The rules compare what the accessors return with the documented semantics, entry by entry.

This interprets accessor *text* on constants and symbols; it never imports the class, and it refuses (NotSymbolic)
anything outside the whitelist -- the rule that asked then fails closed.  It is used for accessors only (the longest
one in the repository is 15 statements); loaders and writers are never interpreted this way.
"""

from __future__ import annotations

import ast
import copy

import numpy as np

from .symarr import NotSymbolic, Sym, SymbolicBranch, SymEval, _opaque


def _all_str(x):
    if isinstance(x, str):
        return True
    return isinstance(x, (list, tuple)) and len(x) > 0 and all(_all_str(y) for y in x)


def _all_num(x):
    """A (nested, rectangular or not) list of plain numbers: numpy builds a numeric array from it."""
    if isinstance(x, (bool, np.bool_)):
        return False
    if isinstance(x, (int, float, np.integer, np.floating)):
        return True
    if isinstance(x, np.ndarray):
        return x.dtype != object and x.dtype.kind in "iuf"
    return isinstance(x, (list, tuple)) and len(x) > 0 and all(_all_num(y) for y in x)


#: external calls that change no value the evaluated fragment can see (their process-wide effect is C16-R5's business)
_NO_VALUE_EFFECT = {"attrs.validators.set_disabled", "attr.validators.set_disabled", "attrs.validators.disabled", "attr.validators.disabled", "warnings.simplefilter", "warnings.filterwarnings", "numpy.seterr", "numpy.errstate", "numpy.set_printoptions"}


class Raised(Exception):
    def __init__(self, cls):
        super().__init__(cls)
        self.cls = cls


class _Return(Exception):
    def __init__(self, value):
        self.value = value


class _Break(Exception):
    pass


class Yielded(Exception):
    """Evaluation of a generator body reached a `yield` (the yielded expression is not evaluated)."""

    def __init__(self, node, local):
        self.node = node
        self.local = local


class _Continue(Exception):
    pass


class ExtObj:
    """A model instance of an external class (pathlib.Path, io.TextIOBase): only its class name and a few attributes."""

    def __init__(self, kind, text=None, **attrs):
        self.kind = kind
        self.text = text
        self.attrs = attrs

    def __str__(self):
        return self.text if self.text is not None else f"<{self.kind}>"


class TextSink:
    """A model output file: records the text written to it (write / print(file=...)); nothing reaches the disk."""

    def __init__(self):
        self.parts = []

    @property
    def text(self):
        return "".join(self.parts)


class Rec:
    """Abstract instance: stored fields by name."""

    def __init__(self, cls, **fields):
        self.cls = cls
        self.fields = dict(fields)

    def shallow(self):
        """attrs.evolve / copy.copy semantics: a new instance sharing the field values."""
        r = Rec(self.cls)
        r.fields = dict(self.fields)
        return r

    def clone(self):
        r = Rec(self.cls)
        r.fields = {k: (v.copy() if isinstance(v, np.ndarray) else copy.copy(v)) for k, v in self.fields.items()}
        return r


def _is_numeric(a):
    return isinstance(a, np.ndarray) and a.dtype != object


import fnmatch as _fn
import posixpath as _pp

# pure string functions of the standard library the evaluated code may call (POSIX semantics, case-sensitive)
import re as _re

_PURE_EXTERNALS = {"re.search": _re.search, "re.match": _re.match, "re.fullmatch": _re.fullmatch, "re.findall": _re.findall, "re.split": _re.split, "re.sub": _re.sub, "re.compile": _re.compile, "re.escape": _re.escape, "fnmatch.fnmatch": _fn.fnmatchcase, "fnmatch.fnmatchcase": _fn.fnmatchcase, "fnmatch.translate": _fn.translate, "os.path.basename": _pp.basename, "os.path.normcase": _pp.normcase, "os.path.splitext": _pp.splitext}


def _prog_call(fn, *args, **kw):
    """Run an operation of the evaluated program (a list / dict / str / set method, a builtin): a Python exception it
    raises is the exception the program would raise."""
    try:
        return fn(*args, **kw)
    except (ValueError, KeyError, IndexError, ZeroDivisionError, TypeError, AttributeError) as exc:
        raise Raised(type(exc).__name__) from exc


class _Expr(SymEval):
    def __init__(self, env, owner):
        super().__init__(env, None, {"np", "numpy"})
        self._local = env  # (the caller's variable dictionary itself: a walrus binds there)
        self.owner = owner

    # --- attribute access on the abstract instance
    def e_Attribute(self, n):
        if not (isinstance(n.value, ast.Name) and n.value.id in self.np_names):
            try_base = None
            if isinstance(n.value, ast.Name) and n.value.id in self.env and isinstance(self.env[n.value.id], ExtObj):
                try_base = self.env[n.value.id]
            if try_base is not None:
                if n.attr in try_base.attrs:
                    return try_base.attrs[n.attr]
                raise Raised("AttributeError")
        return self._e_Attribute_rec(n)

    def _e_Attribute_rec(self, n):
        if isinstance(n.value, ast.Name) and n.value.id in self.np_names:
            return super().e_Attribute(n)
        if isinstance(n.value, ast.Name) and n.value.id not in self.env and n.attr in ("IGNORECASE", "I", "MULTILINE", "M", "DOTALL", "S", "VERBOSE", "X", "ASCII", "A"):
            mod = getattr(self.owner, "module", None) or (self.owner.cls.module if self.owner.cls else None)
            r = self.owner.prog.resolve_expr(None, mod, n) if mod is not None else None
            if r is not None and r[0] == "external" and r[1].startswith("re."):
                return getattr(_re, n.attr)  # a flag constant of the regular-expression module
        if isinstance(n.value, ast.Name) and n.value.id not in self.env and getattr(self.owner, "ext_stubs", None):
            # a class / constant of an external module handed on as a value (argparse.RawTextHelpFormatter given to a
            # modelled ArgumentParser): an opaque token; any use other than passing it on is outside the fragment
            mod = getattr(self.owner, "module", None) or (self.owner.cls.module if self.owner.cls else None)
            r = self.owner.prog.resolve_expr(None, mod, n) if mod is not None else None
            if r is not None and r[0] == "external":
                return ("<external>", r[1])
        base = self.eval(n.value)
        if base is None:
            raise Raised("AttributeError")
        if isinstance(base, Rec):
            return self.owner.get(base, n.attr)
        if isinstance(base, _re.Match) and n.attr in ("lastgroup", "lastindex", "pos", "endpos", "string"):
            return getattr(base, n.attr)
        if isinstance(base, np.ndarray) and n.attr in ("T", "shape", "size", "ndim"):
            return getattr(base, n.attr)
        if isinstance(base, np.ndarray) and n.attr == "flat":
            return base.ravel(order="C")  # iteration order of ndarray.flat (a view for contiguous arrays)
        if isinstance(base, np.generic) and n.attr in ("flat", "size", "shape", "ndim"):
            return np.asarray(base).ravel() if n.attr == "flat" else getattr(base, n.attr)  # a numpy scalar (x[i])
        if isinstance(base, (list, tuple)) and n.attr == "shape":
            raise NotSymbolic("shape of a list")
        raise NotSymbolic(f"attribute {n.attr} of {type(base).__name__}")

    _MISSING = object()

    def _external_default(self, name, n):
        """Built-in models of a few external callables (grouping, weak references, calls without value effect)."""
        if name == "itertools.groupby" and n.args:
            seq = self.eval(n.args[0])
            seq = [seq[i] for i in range(seq.shape[0])] if isinstance(seq, np.ndarray) else list(seq)
            kwv = {k.arg: self.eval(k.value) for k in n.keywords}
            keyf = kwv.get("key", self.eval(n.args[1]) if len(n.args) > 1 else None)
            out_, cur_key, cur = [], object(), None
            for x in seq:
                kx = self._call_value(keyf, [x]) if keyf is not None else x
                if isinstance(kx, (Sym, Rec, np.ndarray)):
                    raise NotSymbolic("grouping by a symbolic key")
                if cur is None or kx != cur_key:
                    cur = []
                    out_.append((kx, cur))
                    cur_key = kx
                cur.append(x)
            return out_
        if name in ("weakref.ref", "weakref.proxy") and len(n.args) == 1:
            target = self.eval(n.args[0])
            return ("<function>", lambda a, k, target=target: target) if name == "weakref.ref" else target
        if name in _NO_VALUE_EFFECT:
            for a in n.args:
                self.eval(a)
            return None
        return self._MISSING

    def e_NamedExpr(self, n):
        # `(name := value)`: binds the name in the enclosing function's variables and gives the value
        v = self.eval(n.value)
        if not isinstance(n.target, ast.Name):
            raise NotSymbolic("walrus target")
        self.env[n.target.id] = v
        if isinstance(getattr(self, "_local", None), dict):
            self._local[n.target.id] = v
        return v

    def e_Lambda(self, n):
        a = n.args
        if a.vararg or a.kwarg or a.kwonlyargs or a.defaults or a.posonlyargs:
            raise NotSymbolic("lambda with defaults / star arguments")
        names = [x.arg for x in a.args]
        env0, owner = self.env, self.owner

        def call(args, kw, names=names, body=n.body):
            if len(args) != len(names) or kw:
                raise Raised("TypeError")
            sub = _Expr(env0, owner)
            for nm, v in zip(names, args):
                sub.env[nm] = v
            return sub.eval(body)

        return ("<function>", call)

    def _super_call(self, n, name):
        """`super().<name>(...)` inside a method: the next class of the package that defines it is interpreted; past the
        package (an exception class of the standard library) `__init__` keeps the arguments and `__str__` renders them
        as BaseException does."""
        own = self.owner
        meth = next((g for g in own.prog.funcs.values() if g.cls is not None and g.module is getattr(own, "module", None) and g.node.lineno <= n.lineno <= (g.node.end_lineno or g.node.lineno)), None)
        if meth is None or not meth.posparams or not isinstance(self.env.get(meth.posparams[0]), Rec):
            raise NotSymbolic("super() outside a method of a model object")
        rec = self.env[meth.posparams[0]]
        args = self._args(n)
        kw = {k.arg: self.eval(k.value) for k in n.keywords if k.arg is not None}
        todo = list(meth.cls.node.bases)
        seen = 0
        while todo and seen < 16:
            seen += 1
            b = todo.pop(0)
            r = own.prog.resolve_expr(None, meth.cls.module, b)
            if r is not None and r[0] == "class":
                if name in r[1].methods:
                    m = r[1].methods[name]
                    env = dict(zip(m.posparams[1:], args))
                    env.update(kw)
                    return own.run(m, rec, env)
                todo = list(r[1].node.bases) + todo
            elif r is not None and r[0] == "external" and r[1].split(".")[-1] in ("Exception", "Warning", "ValueError", "TypeError", "RuntimeError", "UserWarning", "BaseException"):
                if name == "__init__" and not kw:
                    rec.fields["args"] = tuple(args)
                    return None
                if name == "__str__" and not args and not kw:
                    a_ = rec.fields.get("args", ())
                    if all(isinstance(x, (str, int, float, type(None))) for x in a_):
                        return str(a_[0]) if len(a_) == 1 else ("" if not a_ else str(tuple(a_)))
                raise NotSymbolic(f"super().{name} of {r[1]}")
        raise NotSymbolic(f"super().{name}: no base defines it")

    def _args(self, n):
        """Positional arguments of a call, `*iterable` expanded."""
        out = []
        for a in n.args:
            if isinstance(a, ast.Starred):
                v = self.eval(a.value)
                if not isinstance(v, (list, tuple)) and not (isinstance(v, np.ndarray) and v.ndim == 1):
                    raise NotSymbolic("*argument that is not a sequence")
                out.extend(list(v))
            else:
                out.append(self.eval(a))
        return out

    def _call_value(self, fv, args):
        """Call a model callable (a lambda, a nested function, a package function) held as a value."""
        if isinstance(fv, tuple) and len(fv) == 2 and fv[0] == "<function>":
            return fv[1](list(args), {}) if callable(fv[1]) else self.owner.run_free(fv[1], list(args), {})
        raise NotSymbolic("call of a non-function value")

    def e_BinOp(self, n):
        a, b = self.eval(n.left), self.eval(n.right)

        def numeric(v):
            return isinstance(v, (int, float, bool, np.integer, np.floating, np.bool_)) or (isinstance(v, np.ndarray) and v.dtype != object)

        if isinstance(a, str) and isinstance(b, str) and isinstance(n.op, ast.Add):
            return a + b
        _setlike = (set, frozenset, type({}.keys()), type({}.items()), list)  # (dictionary views are modelled as lists)
        if isinstance(a, _setlike) and isinstance(b, _setlike) and isinstance(n.op, (ast.BitAnd, ast.BitOr, ast.Sub, ast.BitXor)):
            # set algebra (also on dictionary views): a plain set; its elements are ordered by sorted() here so that the
            # evaluation is reproducible -- whether the program may depend on that order is the set-order rule's clause
            import operator as _op

            res_ = {ast.BitAnd: _op.and_, ast.BitOr: _op.or_, ast.Sub: _op.sub, ast.BitXor: _op.xor}[type(n.op)](set(a), set(b))
            return set(sorted(res_, key=repr))
        if isinstance(a, list) and isinstance(b, list) and isinstance(n.op, ast.Add):
            return a + b
        if isinstance(a, str) and isinstance(n.op, ast.Mod):
            try:
                return a % b
            except Exception as exc:
                raise NotSymbolic(f"string formatting failed: {exc}") from exc
        if numeric(a) and numeric(b):
            import operator

            ops = {ast.Add: operator.add, ast.Sub: operator.sub, ast.Mult: operator.mul, ast.Div: operator.truediv, ast.FloorDiv: operator.floordiv, ast.Mod: operator.mod, ast.Pow: operator.pow, ast.MatMult: operator.matmul}
            fn = ops.get(type(n.op))
            if fn is None:
                raise NotSymbolic(f"operator {type(n.op).__name__}")
            return fn(a, b)
        # mixed / symbolic: delegate with the already evaluated operands
        sub = SymEval({"__a": a, "__b": b}, None, self.np_names)
        return sub.eval(ast.BinOp(left=ast.Name(id="__a", ctx=ast.Load()), op=n.op, right=ast.Name(id="__b", ctx=ast.Load())))

    def _display(self, elts):
        out = []
        for e in elts:
            if isinstance(e, ast.Starred):
                v = self.eval(e.value)
                out.extend(list(v))
            else:
                out.append(self.eval(e))
        return out

    def e_List(self, n):
        return self._display(n.elts)

    def e_Tuple(self, n):
        return tuple(self._display(n.elts))

    def e_Set(self, n):
        vals = self._display(n.elts)
        if any(isinstance(v, (Sym, Rec, np.ndarray, list, dict)) for v in vals):
            raise NotSymbolic("set display of non-constant values")
        return set(vals)

    def e_Dict(self, n):
        out = {}
        for k, v in zip(n.keys, n.values):
            if k is None:
                out.update(self.eval(v))
            else:
                out[self.eval(k)] = self.eval(v)
        return out

    def e_DictComp(self, n):
        if len(n.generators) != 1:
            raise NotSymbolic("nested comprehension")
        g = n.generators[0]
        out = {}
        for item in list(self.eval(g.iter)):
            sub = _Expr(self.env, self.owner)
            sub._bind(g.target, item)
            if all(self._truth(sub.eval(c)) for c in g.ifs):
                out[sub.eval(n.key)] = sub.eval(n.value)
        return out

    def e_ListComp(self, n):
        out = []

        def level(ev, gens):
            if not gens:
                out.append(ev.eval(n.elt))
                return
            g = gens[0]
            for item in list(ev.eval(g.iter)):
                sub = _Expr(ev.env, self.owner)
                sub._bind(g.target, item)
                if all(self._truth(sub.eval(c)) for c in g.ifs):
                    level(sub, gens[1:])

        level(self, list(n.generators))
        return out

    def e_GeneratorExp(self, n):
        return self.e_ListComp(ast.ListComp(elt=n.elt, generators=n.generators))

    def e_JoinedStr(self, n):
        parts = []
        for v in n.values:
            if isinstance(v, ast.Constant):
                parts.append(str(v.value))
            else:
                val = self.eval(v.value)
                if isinstance(val, (Sym, np.ndarray, Rec)):
                    raise NotSymbolic("formatting of a symbolic value")
                spec = "".join(str(x.value) for x in v.format_spec.values if isinstance(x, ast.Constant)) if v.format_spec is not None else ""
                parts.append(format(val, spec))
        return "".join(parts)

    def e_Subscript(self, n):
        base = self.eval(n.value)
        if isinstance(base, dict):
            key = self.eval(n.slice)
            if key not in base:
                raise Raised("KeyError")
            return base[key]
        if isinstance(base, str):
            return base[self._index(n.slice)]
        return self._subscript(base, n)

    def e_Compare(self, n):
        left = self.eval(n.left)
        res = None
        for op, c in zip(n.ops, n.comparators):
            right = self.eval(c)
            if isinstance(op, ast.Is):
                r = left is right
            elif isinstance(op, ast.IsNot):
                r = left is not right
            elif isinstance(op, (ast.Eq, ast.NotEq)):
                if isinstance(left, np.ndarray) or isinstance(right, np.ndarray):
                    la, ra = np.asarray(left), np.asarray(right)
                    if la.dtype == object or ra.dtype == object:
                        raise NotSymbolic("comparison of symbolic arrays")
                    r = (la == ra) if isinstance(op, ast.Eq) else (la != ra)
                elif isinstance(left, Sym) or isinstance(right, Sym):
                    # symbols denote generic values: two expressions are equal only if they are the same polynomial
                    try:
                        eq = Sym.const(left) == Sym.const(right)
                    except NotSymbolic:
                        eq = False
                    r = eq if isinstance(op, ast.Eq) else (not eq)
                else:
                    r = (left == right) if isinstance(op, ast.Eq) else (left != right)
            elif isinstance(op, (ast.Lt, ast.LtE, ast.Gt, ast.GtE)):
                if any(isinstance(x, Sym) or (isinstance(x, np.ndarray) and x.dtype == object) for x in (left, right)):
                    raise NotSymbolic("ordering of symbols")
                r = {ast.Lt: lambda a, b: a < b, ast.LtE: lambda a, b: a <= b, ast.Gt: lambda a, b: a > b, ast.GtE: lambda a, b: a >= b}[type(op)](left, right)
            elif isinstance(op, (ast.In, ast.NotIn)):
                r = (left in right) if isinstance(op, ast.In) else (left not in right)
            else:
                raise NotSymbolic("comparison operator")
            res = r if res is None else (res and r)
            left = right
        return res

    def e_BoolOp(self, n):
        if isinstance(n.op, ast.And):
            v = True
            for e in n.values:
                v = self.eval(e)
                if not self._truth(v):
                    return v
            return v
        v = False
        for e in n.values:
            v = self.eval(e)
            if self._truth(v):
                return v
        return v

    def e_UnaryOp(self, n):
        if isinstance(n.op, ast.Not):
            return not self._truth(self.eval(n.operand))
        return super().e_UnaryOp(n)

    def e_IfExp(self, n):
        return self.eval(n.body) if self._truth(self.eval(n.test)) else self.eval(n.orelse)

    @staticmethod
    def _truth(v):
        if isinstance(v, Sym) and all(m == () for m in v.terms):
            return bool(v.terms.get((), 0))
        if isinstance(v, (Sym,)) or (isinstance(v, np.ndarray) and v.size != 1):
            raise SymbolicBranch("truth value of a symbolic / array value")
        return bool(v)

    def e_Call(self, n):
        f = n.func
        root = f
        while isinstance(root, ast.Attribute):
            root = root.value
        if isinstance(f, ast.Attribute) and isinstance(root, ast.Name) and root.id not in self.env and root.id not in self.np_names:
            mod = getattr(self.owner, "module", None) or (self.owner.cls.module if self.owner.cls is not None else None)
            r = self.owner.prog.resolve_expr(None, mod, f) if mod is not None else None
            if r is not None and r[0] == "external" and r[1] in getattr(self.owner, "ext_stubs", {}):
                return self.owner.ext_stubs[r[1]](self._args(n), {k.arg: self.eval(k.value) for k in n.keywords if k.arg is not None})
            if r is not None and r[0] == "external" and r[1] in _PURE_EXTERNALS:
                args = self._args(n)
                if not all(isinstance(a, (str, int, _re.RegexFlag, _re.Pattern)) and not isinstance(a, bool) for a in args):
                    raise NotSymbolic(f"{r[1]} on non-constant arguments")
                kw_ = {k.arg: self.eval(k.value) for k in n.keywords if k.arg is not None}
                if not all(isinstance(v, (str, int, _re.RegexFlag)) for v in kw_.values()):
                    raise NotSymbolic(f"{r[1]} on non-constant keyword arguments")
                return _prog_call(_PURE_EXTERNALS[r[1]], *args, **kw_)
            if r is not None and r[0] == "external":
                dv = self._external_default(r[1], n)
                if dv is not self._MISSING:
                    return dv
        if isinstance(f, ast.Attribute) and isinstance(f.value, ast.Name) and f.value.id in self.np_names and f.value.id not in self.env and f.attr == "frompyfunc" and len(n.args) == 3 and not n.keywords:
            # a model callable made element-wise: called on arrays it is applied to every element of the broadcast
            # arguments; the result is an array of objects, as numpy's
            fv, nin, nout = self.eval(n.args[0]), self.eval(n.args[1]), self.eval(n.args[2])
            if nout != 1 or not isinstance(nin, (int, np.integer)):
                raise NotSymbolic("frompyfunc with several outputs")

            def elementwise(args, kw, fv=fv, nin=int(nin)):
                if kw or len(args) != nin:
                    raise Raised("TypeError")
                arrs = np.broadcast_arrays(*[np.asarray(a, dtype=object) if not isinstance(a, np.ndarray) else a for a in args])
                out = np.empty(arrs[0].shape, dtype=object)
                for idx in np.ndindex(*arrs[0].shape):
                    out[idx] = self._call_value(fv, [a_[idx] for a_ in arrs])
                return out if out.shape else out[()]

            return ("<function>", elementwise)
        if isinstance(f, ast.Attribute) and isinstance(root, ast.Name) and root.id in self.np_names and ast.unparse(f).split(".", 1)[-1] in ("polynomial.hermite.hermgauss", "polynomial.hermite_e.hermegauss", "polynomial.legendre.leggauss"):
            deg = self.eval(n.args[0]) if n.args else None
            if not isinstance(deg, (int, np.integer)):
                raise NotSymbolic("quadrature rule of non-constant degree")
            mod_ = np.polynomial
            for part in ast.unparse(f).split(".")[2:]:
                mod_ = getattr(mod_, part)
            return tuple(mod_(int(deg)))  # numeric nodes and weights
        if isinstance(f, ast.Attribute) and isinstance(f.value, ast.Call) and isinstance(f.value.func, ast.Name) and f.value.func.id == "super" and not f.value.args and "super" not in self.env:
            return self._super_call(n, f.attr)
        if isinstance(f, ast.Attribute) and isinstance(f.value, ast.Attribute) and f.value.attr == "linalg" and isinstance(root, ast.Name) and root.id in self.np_names:
            from .symarr import ProgramError

            try:
                return super().e_Call(n)
            except ProgramError as exc:
                raise Raised(str(exc)) from exc
        # numeric-only numpy helpers and reductions that SymEval does not know
        if isinstance(f, ast.Attribute) and isinstance(f.value, ast.Name) and f.value.id in self.np_names:
            args = self._args(n)
            kw = {k.arg: self.eval(k.value) for k in n.keywords}
            if f.attr == "clip":
                if not _is_numeric(np.asarray(args[0])) or np.asarray(args[0]).dtype == object:
                    return _opaque("clip", np.asarray(args[0], dtype=object))  # value dependent: equal only to itself
                return np.clip(*args, **kw)
            if f.attr == "evolve" and False:
                pass
            if f.attr in ("rint", "round", "around") and (isinstance(args[0], Sym) or np.asarray(args[0]).dtype == object):
                from .symarr import _round

                return _round(args[0], *args[1:2])
            if f.attr in ("isclose", "allclose", "rint", "round", "floor", "array_equal", "array_equiv"):
                if np.asarray(args[0]).dtype == object:
                    raise NotSymbolic(f"{f.attr} of symbolic values")
                return getattr(np, f.attr)(*args, **kw)
            if f.attr in ("array", "asarray") and args and isinstance(args[0], (list, tuple)) and args[0] and _all_num(args[0]):
                dt = kw.get("dtype", args[1] if len(args) > 1 else None)
                return _prog_call(np.array, args[0], dtype=dt if dt in (None, int, float, bool) or isinstance(dt, type) else None)
            if f.attr in ("array", "asarray") and args and isinstance(args[0], (list, tuple)) and args[0] and _all_str(args[0]):
                dt = kw.get("dtype", args[1] if len(args) > 1 else None)
                if dt in (float, int) or (isinstance(dt, type) and issubclass(dt, np.generic)):
                    return _prog_call(np.array, args[0], dtype=dt)  # numpy parses the words as numbers
                return _prog_call(np.array, args[0])  # an array of words, to be cut and converted later
            if f.attr in ("array", "asarray") and args and isinstance(args[0], np.ndarray):
                # np.asarray hands back the very same array (no dtype change asked, or the same dtype): the result
                # shares storage with the argument; np.array copies unless copy=False
                dt = kw.get("dtype", args[1] if len(args) > 1 else None)
                same_dtype = dt is None or args[0].dtype == object or np.dtype(dt) == args[0].dtype
                if (f.attr == "asarray" or kw.get("copy") is False) and same_dtype:
                    return args[0]
                return args[0].copy()
            if f.attr == "concatenate":
                seq = [np.asarray(x) if not isinstance(x, np.ndarray) else x for x in args[0]]
                return _prog_call(np.concatenate, seq, **{k: v for k, v in kw.items() if k == "axis"})
            if f.attr in ("zeros", "empty", "ones") and args:
                # np.empty: uninitialised memory is modelled as NaN, so that a row that is never stored shows
                dt = kw.get("dtype", args[1] if len(args) > 1 else float)
                if f.attr == "empty":
                    return np.full(args[0], np.nan) if dt in (float, np.float64, np.float32, "float") else np.zeros(args[0], dtype=dt if not isinstance(dt, str) else {"int": int, "float": float}.get(dt, float))
                return getattr(np, f.attr)(args[0], dtype=dt if not isinstance(dt, str) else {"int": int, "float": float}.get(dt, float))
            if f.attr == "ndindex" and args and not kw:
                dims = args[0] if len(args) == 1 and isinstance(args[0], (tuple, list, np.ndarray)) else args
                try:
                    return [tuple(int(i) for i in idx) for idx in np.ndindex(*[int(d) for d in dims])]
                except (TypeError, ValueError):
                    raise NotSymbolic("ndindex over a symbolic shape") from None
            if f.attr == "nditer" and len(args) == 1 and isinstance(args[0], np.ndarray) and not kw:
                # element by element in memory order (the arrays of the evaluator are real numpy arrays)
                if args[0].dtype == object:
                    return [args[0][idx] for idx in np.ndindex(*args[0].shape)] if args[0].flags["C_CONTIGUOUS"] else [args[0].T[idx] for idx in np.ndindex(*args[0].T.shape)]
                return [x.item() for x in np.nditer(args[0])]
            if f.attr == "full" and len(args) >= 2 and isinstance(args[1], (int, float)) and not isinstance(args[1], bool):
                return np.full(args[0], float(args[1]) if kw.get("dtype") in (None, float) else args[1])
            PURE_NUMERIC = ("tril_indices", "triu_indices", "argsort", "sort", "unique", "arange", "cumsum", "where", "sum", "max", "min", "amax", "amin", "abs", "absolute", "sqrt", "prod", "any", "all", "nonzero", "argmax", "argmin", "diff", "lexsort", "searchsorted", "count_nonzero", "sign", "floor", "ceil", "ravel_multi_index", "unravel_index", "exp", "log", "result_type", "promote_types")
            if f.attr in ("argsort", "sort") and args and isinstance(args[0], np.ndarray) and args[0].dtype != object and args[0].ndim == 1 and kw.get("kind") not in ("stable", "mergesort") and len(np.unique(args[0])) < args[0].size:
                # an unstable sort leaves the order of equal keys open: the model takes the legal outcome that differs
                # from the stable one (equal keys in reverse order of appearance), so that code which relies on the
                # order of ties shows
                a_ = args[0]
                order = np.array(sorted(range(a_.size), key=lambda i: (a_[i], -i)), dtype=int)
                return order if f.attr == "argsort" else a_[order]
            if f.attr in PURE_NUMERIC and args and all(not isinstance(a, (Sym, Rec)) and not (isinstance(a, np.ndarray) and a.dtype == object) and not (isinstance(a, (list, tuple)) and any(isinstance(x, (Sym, Rec)) for x in a)) for a in args):
                return _prog_call(getattr(np, f.attr), *args, **kw)
            if f.attr in ("repeat", "tile") and args:
                a0 = np.asarray(args[0], dtype=object) if not isinstance(args[0], np.ndarray) else args[0]
                return getattr(np, f.attr)(a0, *args[1:], **kw)
            self.__dict__["_preargs"] = (n, args, {k: v for k, v in kw.items() if k is not None})
            return super().e_Call(n)
        if isinstance(f, ast.Attribute) and isinstance(f.value, ast.Name) and f.value.id not in self.env and (f.value.id, f.attr) in (("attrs", "asdict"), ("attr", "asdict")):
            a0 = self.eval(n.args[0])
            if isinstance(a0, Rec):
                return dict(a0.fields)
            raise NotSymbolic("asdict of a non-instance")
        if isinstance(f, ast.Attribute) and isinstance(f.value, ast.Name) and f.value.id not in self.env and (f.value.id, f.attr) in (("attrs", "evolve"), ("attr", "evolve"), ("copy", "copy"), ("copy", "deepcopy")):
            args = self._args(n)
            if args and isinstance(args[0], Rec):
                new = args[0].clone() if f.attr == "deepcopy" else args[0].shallow()
                for k in n.keywords:
                    new.fields[k.arg] = self.eval(k.value)
                return new
            if args and isinstance(args[0], np.ndarray):
                return args[0].copy()
        if isinstance(f, ast.Attribute):
            base = self.eval(f.value)
            if isinstance(base, np.ndarray):
                args = self._args(n)
                if f.attr in ("sum", "all", "any", "max", "min") and not n.keywords:
                    if f.attr == "sum" and base.dtype != object:
                        return base.sum()
                    if f.attr == "sum":
                        tot = Sym.const(0) if base.dtype == object else 0.0
                        for x in base.ravel():
                            tot = tot + x
                        return tot
                    if base.dtype == object:
                        if f.attr in ("any", "all"):
                            # symbols denote generic (non-zero, pairwise different) values: only an identically zero
                            # entry is falsy.  Special coincidences are the business of the constant patterns.
                            nz = [bool(Sym.const(x).terms) for x in base.ravel()]
                            if any(m != () for x in base.ravel() for m in Sym.const(x).terms):
                                self.owner.generic_branches.append(f"{f.attr}() of symbolic values at line {n.lineno}")
                            return any(nz) if f.attr == "any" else all(nz)
                        raise NotSymbolic(f"{f.attr} of symbolic values")
                    return getattr(base, f.attr)()
                if f.attr == "astype":
                    if base.dtype == object:
                        # an array of objects that are all plain numbers (what np.frompyfunc returns) converts
                        vals_ = [Sym.const(x) if isinstance(x, Sym) else x for x in base.ravel()]
                        if all(not isinstance(x, Sym) or all(m == () for m in x.terms) for x in vals_) and not any(isinstance(x, Rec) for x in vals_):
                            tgt = args[0] if not isinstance(args[0], str) else {"int": int, "float": float}[args[0]]
                            return np.array([float(x.terms.get((), 0)) if isinstance(x, Sym) else x for x in vals_], dtype=object).astype(tgt).reshape(base.shape)
                        raise NotSymbolic("astype of symbolic values")
                    return base.astype(args[0] if not isinstance(args[0], str) else {"int": int, "float": float}[args[0]])
                if f.attr == "copy":
                    return base.copy()
                if f.attr == "clip":
                    kw = {k.arg: self.eval(k.value) for k in n.keywords}
                    if base.dtype == object:
                        return _opaque("clip", base)
                    return base.clip(*args, **kw)
            if hasattr(base, "__next__") and not isinstance(base, (Sym, np.ndarray, Rec, TextSink)) and f.attr in ("read", "readline", "readlines") and not n.args:
                # the model input file (an iterator over constant lines) read directly
                if f.attr == "readline":
                    return next(base, "")
                rest = list(base)
                if not all(isinstance(x, str) for x in rest):
                    raise NotSymbolic("read() of a non-text stream")
                return "".join(rest) if f.attr == "read" else rest
            if isinstance(base, (_re.Match, _re.Pattern)) and f.attr in ("group", "groups", "groupdict", "start", "end", "span", "search", "match", "fullmatch", "findall", "split", "sub"):
                margs = self._args(n)
                if not all(isinstance(a, (str, int)) for a in margs):
                    raise NotSymbolic(f"regular-expression method {f.attr} on non-constant arguments")
                return _prog_call(getattr(base, f.attr), *margs)
            if isinstance(base, TextSink):
                if f.attr == "write" and len(n.args) == 1:
                    txt = self.eval(n.args[0])
                    if not isinstance(txt, str):
                        raise Raised("TypeError")
                    base.parts.append(txt)
                    return len(txt)
                raise NotSymbolic(f"method {f.attr} on an output file")
            if isinstance(base, Rec):
                margs = self._args(n)
                mkw = {}
                for k in n.keywords:
                    if k.arg is None:
                        mkw.update(self.eval(k.value))
                    else:
                        mkw[k.arg] = self.eval(k.value)
                held = base.fields.get(f.attr)
                if isinstance(held, tuple) and len(held) == 2 and held[0] == "<function>":
                    # an attribute that holds a function (a module object of a model registry, a callback slot)
                    return held[1](margs, mkw) if callable(held[1]) else self.owner.run_free(held[1], margs, mkw)
                return self.owner.call_method(base, f.attr, margs, mkw)
            if isinstance(base, str) and f.attr in ("lower", "upper", "strip", "title", "capitalize", "startswith", "endswith", "replace", "split", "join", "rstrip", "lstrip", "index", "find", "count", "isdigit", "isalpha", "ljust", "rjust", "center", "zfill", "splitlines"):
                return _prog_call(getattr(base, f.attr), *self._args(n))
            if isinstance(base, str) and f.attr == "format":
                args = []
                for a in n.args:
                    if isinstance(a, ast.Starred):
                        v_ = self.eval(a.value)
                        args.extend(list(v_) if not isinstance(v_, np.ndarray) else [v_[i_] for i_ in range(v_.shape[0])])
                    else:
                        args.append(self.eval(a))
                kw = {}
                for k in n.keywords:
                    if k.arg is None:
                        kw.update(self.eval(k.value))
                    else:
                        kw[k.arg] = self.eval(k.value)
                used = {fn_.split(".")[0].split("[")[0] for _, fn_, _, _ in __import__("string").Formatter().parse(base) if fn_}
                if any(isinstance(v, Sym) or (isinstance(v, np.ndarray) and v.dtype == object) for kk, v in kw.items() if kk in used) or any(isinstance(v, (Sym, Rec)) for v in args):
                    raise NotSymbolic("str.format of a symbolic value")
                return _prog_call(base.format, *args, **kw)
            if isinstance(base, _re.Pattern) and f.attr in ("search", "match", "fullmatch", "findall"):
                args = self._args(n)
                if not all(isinstance(a, str) for a in args):
                    raise NotSymbolic("regular expression applied to a non-constant")
                return _prog_call(getattr(base, f.attr), *args)
            if isinstance(base, (set, frozenset)) and f.attr in ("difference", "union", "intersection", "issubset", "issuperset", "symmetric_difference", "add", "copy", "isdisjoint", "update", "discard", "remove", "clear", "difference_update", "intersection_update"):
                return _prog_call(getattr(base, f.attr), *self._args(n))
            if isinstance(base, list) and f.attr in ("append", "extend", "index", "count", "copy", "insert", "pop", "reverse", "clear", "remove"):
                return _prog_call(getattr(base, f.attr), *self._args(n))
            if isinstance(base, list) and f.attr == "sort" and not n.args:
                kwv = {k.arg: self.eval(k.value) for k in n.keywords}
                keyf = kwv.get("key")
                keys = [self._call_value(keyf, [x]) for x in base] if keyf is not None else list(base)
                if any(isinstance(k_, (Sym, Rec)) or (isinstance(k_, np.ndarray) and k_.dtype == object) for k_ in keys):
                    raise NotSymbolic("ordering by a symbolic key")
                order = _prog_call(sorted, range(len(base)), key=lambda i: keys[i], reverse=bool(kwv.get("reverse", False)))
                base[:] = [base[i] for i in order]  # in place, stable: the caller's list object is re-ordered
                return None
            if isinstance(base, dict) and f.attr in ("update", "get", "items", "keys", "values", "setdefault", "pop", "copy"):
                args = self._args(n)
                kw = {k.arg: self.eval(k.value) for k in n.keywords if k.arg is not None}
                res = _prog_call(getattr(base, f.attr), *args, **kw)
                return list(res) if f.attr in ("items", "keys", "values") else res
            self._receiver = base  # evaluated once: hand it to the generic method dispatch
            return super().e_Call(n)
        if isinstance(f, ast.Name) and f.id in self.env and isinstance(self.env[f.id], type) and self.env[f.id] in (int, float, str, bool):
            args = self._args(n)
            if any(isinstance(a, (Sym, Rec, np.ndarray)) for a in args):
                raise NotSymbolic("type conversion of a symbolic / array value")
            return _prog_call(self.env[f.id], *args)
        if isinstance(f, ast.Name) and f.id in self.env and isinstance(self.env[f.id], tuple) and len(self.env[f.id]) == 2 and self.env[f.id][0] == "<function>":
            target = self.env[f.id][1]
            args = self._args(n)
            kw = {k.arg: self.eval(k.value) for k in n.keywords if k.arg is not None}
            if callable(target):
                return target(args, kw)  # a model callback supplied by the rule
            return self.owner.run_free(target, args, kw)
        if isinstance(f, ast.Name) and f.id not in self.env:
            r = self.owner.prog.lookup(None, getattr(self.owner, "module", None) or self.owner.cls.module, f.id)
            if r is not None and r[0] == "func":
                g = r[1]
                args = self._args(n)
                kw = {}
                for k in n.keywords:
                    if k.arg is None:
                        kw.update(self.eval(k.value))
                    else:
                        kw[k.arg] = self.eval(k.value)
                stub = getattr(self.owner, "stubs", {}).get(g.qualname)
                if stub is not None:
                    return stub(args, kw)
                return self.owner.run_free(g, args, kw)
            if r is not None and r[0] == "external" and r[1] in getattr(self.owner, "ext_stubs", {}):
                return self.owner.ext_stubs[r[1]](self._args(n), {k.arg: self.eval(k.value) for k in n.keywords if k.arg is not None})
            if r is not None and r[0] == "external" and r[1] in _PURE_EXTERNALS:
                args = self._args(n)
                if not all(isinstance(a, (str, int, _re.RegexFlag, _re.Pattern)) and not isinstance(a, bool) for a in args):
                    raise NotSymbolic(f"{r[1]} on non-constant arguments")
                kw_ = {k.arg: self.eval(k.value) for k in n.keywords if k.arg is not None}
                if not all(isinstance(v, (str, int, _re.RegexFlag)) for v in kw_.values()):
                    raise NotSymbolic(f"{r[1]} on non-constant keyword arguments")
                return _prog_call(_PURE_EXTERNALS[r[1]], *args, **kw_)
            if r is not None and r[0] == "external":
                dv = self._external_default(r[1], n)
                if dv is not self._MISSING:
                    return dv
            if r is not None and r[0] == "external" and r[1] in ("warnings.warn",):
                for a in n.args:
                    self.eval(a)
                self.owner.warnings = getattr(self.owner, "warnings", 0) + 1
                return None
            if r is not None and r[0] == "class":
                ci = r[1]
                names = list(ci.fields)
                args = self._args(n)
                kw = {}
                for k in n.keywords:
                    if k.arg is None:
                        kw.update(self.eval(k.value))
                    else:
                        kw[k.arg] = self.eval(k.value)
                cstub = getattr(self.owner, "stubs", {}).get(ci.qualname)
                if cstub is not None:
                    return cstub(args, kw)
                if "__init__" in ci.methods and not ci.node.bases and not ci.node.decorator_list:
                    # a plain class of the package with its own constructor (no base class): the constructor is run
                    inst = Rec(ci)
                    self.owner.call_method(inst, "__init__", args, kw)
                    return inst
                if not names:
                    return Rec(ci, args=tuple(args), **kw)  # exception / warning classes and other plain classes
                if len(args) > len(names) or any(k not in names for k in kw):
                    raise Raised("TypeError")
                vals = {nm: None for nm in names}
                vals.update(dict(zip(names, args)))
                vals.update(kw)
                # attrs converters that turn sequences into arrays (convert_array_to(...)) are applied
                for nm, st_ in ci.fields.items():
                    v_ = vals.get(nm)
                    if isinstance(v_, (list, tuple)) and st_ is not None and any(isinstance(x, ast.Call) and getattr(x.func, "id", "") == "convert_array_to" for x in ast.walk(st_)):
                        if any(isinstance(e_, (Sym, np.ndarray)) and (isinstance(e_, Sym) or e_.dtype == object) for e_ in v_):
                            vals[nm] = np.array(list(v_), dtype=object)
                        else:
                            vals[nm] = np.array(v_)
                return Rec(ci, **vals)
        if isinstance(f, ast.Name):
            if f.id == "abs" and len(n.args) == 1:
                v = self.eval(n.args[0])
                if isinstance(v, Sym):
                    if all(m == () for m in v.terms):
                        c = v.terms.get((), 0)
                        return Sym.const(abs(c))
                    return _opaque("abs", v)
                return abs(v)
            if f.id == "enumerate" and len(n.args) == 1 and len(n.keywords) == 1 and n.keywords[0].arg == "start":
                v0, st0 = self.eval(n.args[0]), self.eval(n.keywords[0].value)
                if isinstance(v0, Rec) or not isinstance(st0, (int, np.integer)):
                    raise NotSymbolic("enumerate(start=) over a model iterator")
                return [(i, x) for i, x in enumerate([v0[i] for i in range(v0.shape[0])] if isinstance(v0, np.ndarray) else list(v0), int(st0))]
            if f.id in ("zip", "enumerate", "range", "all", "any", "reversed") and not n.keywords:
                args = self._args(n)
                rows = lambda a: [a[i] for i in range(a.shape[0])] if isinstance(a, np.ndarray) else list(a)
                if f.id == "zip":
                    return [tuple(t) for t in zip(*[rows(a) for a in args])]
                if f.id == "enumerate":
                    return [(i, x) for i, x in enumerate(rows(args[0]), *(args[1:]))]
                if f.id == "range":
                    return list(range(*args))
                if f.id == "reversed":
                    return list(reversed(rows(args[0])))
                vals = [self._truth(x) for x in rows(args[0])]
                return all(vals) if f.id == "all" else any(vals)
            if f.id in ("sorted", "min", "max") and n.args and n.keywords and all(k.arg in ("key", "reverse") for k in n.keywords):
                seq = self.eval(n.args[0])
                seq = [seq[i] for i in range(seq.shape[0])] if isinstance(seq, np.ndarray) else list(seq)
                kwv = {k.arg: self.eval(k.value) for k in n.keywords}
                keyf = kwv.get("key")
                keys = [self._call_value(keyf, [x]) for x in seq] if keyf is not None else list(seq)
                if any(isinstance(k_, (Sym, Rec)) or (isinstance(k_, np.ndarray) and k_.dtype == object) for k_ in keys):
                    raise NotSymbolic("ordering by a symbolic key")
                order = _prog_call(sorted, range(len(seq)), key=lambda i: keys[i], reverse=bool(kwv.get("reverse", False)))
                if f.id == "sorted":
                    return [seq[i] for i in order]
                if not seq:
                    raise Raised("ValueError")
                return seq[order[0]] if f.id == "min" else seq[order[-1]] if not kwv.get("reverse") else seq[order[0]]
            if f.id in ("list", "tuple", "dict", "set", "frozenset") and not n.args and not n.keywords and f.id not in self.env:
                return {"list": list, "tuple": tuple, "dict": dict, "set": set, "frozenset": frozenset}[f.id]()
            if f.id in ("round", "min", "max", "sum", "str", "sorted", "list", "tuple", "dict", "set", "frozenset") and n.args and not n.keywords:
                args = []
                for a in n.args:
                    if isinstance(a, ast.Starred):
                        v_ = self.eval(a.value)
                        args.extend([v_[i] for i in range(v_.shape[0])] if isinstance(v_, np.ndarray) else list(v_))
                    else:
                        args.append(self.eval(a))
                if all(not isinstance(a, (Sym, Rec)) and not (isinstance(a, np.ndarray) and a.dtype == object) for a in args):
                    import builtins

                    return _prog_call(getattr(builtins, f.id), *args)
            if f.id in ("hasattr", "getattr") and len(n.args) >= 2:
                obj, name = self.eval(n.args[0]), self.eval(n.args[1])
                if isinstance(obj, Rec):
                    has = name in obj.fields or (obj.cls is not None and (name in obj.cls.getters or name in obj.cls.methods))
                    if f.id == "hasattr":
                        return has
                    if has:
                        return self.owner.get(obj, name)
                    if len(n.args) == 3:
                        return self.eval(n.args[2])
                    raise Raised("AttributeError")
                raise NotSymbolic(f"{f.id} on a non-instance")
            if f.id == "print":
                kw = {k.arg: self.eval(k.value) for k in n.keywords}
                sink = kw.get("file")
                if sink is None and "file" not in kw:
                    sink = self.owner.__dict__.setdefault("stdout", TextSink())  # the process's standard output
                if not isinstance(sink, TextSink):
                    raise NotSymbolic("print to something that is not a model output file")
                vals = self._args(n)
                if any(isinstance(v, (Sym, Rec)) or (isinstance(v, np.ndarray) and v.dtype == object) for v in vals):
                    raise NotSymbolic("print of a symbolic value")
                sink.parts.append(str(kw.get("sep", " ")).join(str(v) for v in vals) + str(kw.get("end", "\n")))
                return None
            if f.id == "id" and len(n.args) == 1:
                return id(self.eval(n.args[0]))
            if f.id == "iter" and len(n.args) == 1:
                v_ = self.eval(n.args[0])
                if isinstance(v_, Rec) or hasattr(v_, "__next__"):
                    return v_
                if isinstance(v_, (list, tuple)):
                    return iter(v_)
                if isinstance(v_, np.ndarray):
                    return iter([v_[i] for i in range(v_.shape[0])])
                raise NotSymbolic("iter() of a non-sequence")
            if f.id == "open" and "open" not in self.env and n.args:
                # the output (or input) file of an API routine: a model file; the rule sees what happened through it
                hook = getattr(self.owner, "ext_stubs", {}).get("builtins.open")
                margs = self._args(n)
                mkw = {k.arg: self.eval(k.value) for k in n.keywords if k.arg is not None}
                if hook is None:
                    raise NotSymbolic("open() without a model file")
                return hook(margs, mkw)
            if f.id == "next" and len(n.args) in (1, 2):
                it_ = self.eval(n.args[0])
                try:
                    if isinstance(it_, Rec):
                        return self.owner.call_method(it_, "__next__", [], {})
                    if hasattr(it_, "__next__") and not isinstance(it_, (Sym, np.ndarray)):
                        try:
                            return next(it_)
                        except StopIteration:
                            raise Raised("StopIteration") from None
                except Raised as r_:
                    if r_.args[0] == "StopIteration" and len(n.args) == 2:
                        return self.eval(n.args[1])  # next(it, default)
                    raise
                raise NotSymbolic("next() of a non-iterator")
            if f.id == "slice" and "slice" not in self.env and 1 <= len(n.args) <= 3 and not n.keywords:
                sargs = self._args(n)
                if any(isinstance(a, (Sym, Rec)) for a in sargs):
                    raise NotSymbolic("slice with symbolic bounds")
                return slice(*[None if a is None else int(a) for a in sargs])
            if f.id == "bool" and len(n.args) == 1:
                return self._truth(self.eval(n.args[0]))
            if f.id in ("int", "float") and n.args:
                v = self.eval(n.args[0])
                return v if isinstance(v, (Sym, np.ndarray)) else {"int": int, "float": float}[f.id](v)
            if f.id == "len" and n.args:
                return len(self.eval(n.args[0]))
            if f.id == "isinstance" and len(n.args) == 2:
                v = self.eval(n.args[0])
                if isinstance(v, Sym):
                    raise NotSymbolic("isinstance of a symbolic value")
                kinds = n.args[1].elts if isinstance(n.args[1], ast.Tuple) else [n.args[1]]
                mod_ = getattr(self.owner, "module", None) or (self.owner.cls.module if self.owner.cls is not None else None)
                for k in kinds:
                    if isinstance(k, ast.Name) and k.id in ("str", "int", "float", "dict", "list", "tuple", "bool") and k.id not in self.env:
                        if isinstance(v, {"str": str, "int": int, "float": float, "dict": dict, "list": list, "tuple": tuple, "bool": bool}[k.id]) and not (k.id == "int" and isinstance(v, bool)):
                            return True
                        continue
                    r = self.owner.prog.resolve_expr(None, mod_, k) if mod_ is not None else None
                    if r is not None and r[0] == "class":
                        if isinstance(v, Rec) and v.cls is not None and (v.cls is r[1] or r[1].qualname in getattr(v.cls, "mro_names", ()) or any(b is r[1] for b in getattr(v.cls, "bases_resolved", ()))):
                            return True
                        continue
                    if r is not None and r[0] == "external":
                        if r[1] in ("numpy.ndarray",):
                            if isinstance(v, np.ndarray):
                                return True
                            continue
                        if isinstance(v, ExtObj) and v.kind == r[1]:
                            return True
                        if isinstance(v, TextSink) and r[1] in ("io.TextIOBase", "typing.TextIO", "io.IOBase"):
                            return True
                        continue
                    raise NotSymbolic(f"isinstance against {ast.unparse(k)}")
                return False
            if f.id in ("int", "float"):
                return f.id
        if isinstance(f, (ast.Subscript, ast.Call)):
            fv = self.eval(f)
            if isinstance(fv, tuple) and len(fv) == 2 and fv[0] == "<function>":
                args = self._args(n)
                kw = {k.arg: self.eval(k.value) for k in n.keywords if k.arg is not None}
                if callable(fv[1]):
                    return fv[1](args, kw)
                return self.owner.run_free(fv[1], args, kw)
            raise NotSymbolic(f"call of the value of `{ast.unparse(f)[:40]}`")
        return super().e_Call(n)

    def e_Name(self, n):
        if n.id in ("int", "float", "None", "True", "False"):
            return {"int": int, "float": float, "None": None, "True": True, "False": False}[n.id]
        if n.id not in self.env:
            mod = getattr(self.owner, "module", None) or self.owner.cls.module
            r = self.owner.prog.lookup(None, mod, n.id)
            if r is not None and r[0] == "func":
                return ("<function>", r[1])
            if r is not None and r[0] == "global":
                from .consteval import ConstEval, NotConstant

                key = (r[1].name, r[2])
                cache = self.owner.__dict__.setdefault("_globals", {})
                if key not in cache:
                    try:
                        v = ConstEval(self.owner.prog).global_value(r[1], r[2])
                    except NotConstant as exc:
                        b = r[3] if len(r) > 3 else None
                        if b is None or getattr(b, "value", None) is None or getattr(b, "index", None) is not None or self.owner.depth > 6:
                            raise NotSymbolic(f"module constant {n.id}: {exc}") from exc
                        # a module-level value built from other (possibly overridden) module state
                        saved = getattr(self.owner, "module", None)
                        self.owner.module = r[1]
                        self.owner.depth += 1
                        try:
                            v = _Expr({}, self.owner).eval(b.value)
                        finally:
                            self.owner.module = saved
                            self.owner.depth -= 1
                    # module-level containers are private to one evaluation (state of earlier calls is not modelled:
                    # every evaluation sees the module as freshly imported; cross-call state is C16's business)
                    cache[key] = copy.deepcopy(v) if isinstance(v, (dict, list, set)) else v
                return cache[key]
        return super().e_Name(n)


class AccessorEval:
    _MISSING_FIELD = object()

    def __init__(self, prog, cls, limit=400):
        self.prog = prog
        self.cls = cls
        self.depth = 0
        self.ticks = 0
        self.limit = limit
        self.generic_branches = []  # data-dependent tests decided under "symbols are generic (non-zero)"

    # ------------------------------------------------------------------ instance protocol
    def get(self, rec: Rec, name):
        if name in rec.fields:
            return rec.fields[name]
        ci = rec.cls or self.cls
        if ci is None:
            raise Raised("AttributeError")  # a plain model object without that attribute
        g = ci.getters.get(name)
        if g is not None:
            return self.run(g, rec, {})
        st_f = ci.fields.get(name) if isinstance(getattr(ci, "fields", None), dict) else None
        if st_f is not None and getattr(st_f, "value", None) is not None:
            # a declared field the model object was built without: its declared default (a constant, or
            # `attrs.field(default=<constant>)`); the object then carries it like any other field
            v_ = st_f.value
            dflt = self._MISSING_FIELD
            if isinstance(v_, ast.Constant):
                dflt = v_.value
            elif isinstance(v_, ast.Call) and getattr(v_.func, "attr", getattr(v_.func, "id", "")) in ("field", "ib", "attrib"):
                for k_ in v_.keywords:
                    if k_.arg == "default" and isinstance(k_.value, ast.Constant):
                        dflt = k_.value.value
                    elif k_.arg == "factory" and isinstance(k_.value, ast.Name) and k_.value.id in ("list", "dict", "set"):
                        dflt = {"list": list, "dict": dict, "set": set}[k_.value.id]()
            if dflt is not self._MISSING_FIELD:
                rec.fields[name] = dflt
                return dflt
        # a class-level attribute set by a plain assignment in the class body (evaluated once per evaluator, in order)
        cache = self.__dict__.setdefault("_class_attrs", {})
        if ci.qualname not in cache:
            local = {}
            saved = getattr(self, "module", None)
            self.module = ci.module
            try:
                for st in ci.node.body:
                    if isinstance(st, ast.AnnAssign) and st.value is not None and isinstance(st.target, ast.Name):
                        st = ast.copy_location(ast.Assign(targets=[st.target], value=st.value), st)  # `name: T = value`
                    if isinstance(st, ast.Assign) and all(isinstance(t, (ast.Name, ast.Tuple)) for t in st.targets):
                        try:
                            self._stmt(st, local)
                        except NotSymbolic:
                            for t in st.targets:
                                for x in ast.walk(t):
                                    if isinstance(x, ast.Name):
                                        local[x.id] = ("<unevaluated>", ast.unparse(st.value)[:60])
            finally:
                self.module = saved
            cache[ci.qualname] = local
        if name in cache[ci.qualname]:
            v = cache[ci.qualname][name]
            if isinstance(v, tuple) and len(v) == 2 and v[0] == "<unevaluated>":
                raise NotSymbolic(f"class attribute {ci.name}.{name} = {v[1]} is outside the whitelist")
            return v
        if name in ci.methods and not ci.methods[name].node.decorator_list:
            # a bound method handed on as a value (np.frompyfunc(obj.method, ...), key=obj.method)
            fn_ = lambda args, kw, rec=rec, name=name: self.call_method(rec, name, list(args), dict(kw))  # noqa: E731
            fn_.func = ci.methods[name]
            return ("<function>", fn_)
        raise NotSymbolic(f"{ci.name} has no field or property {name}")

    def set(self, rec: Rec, name, value):
        if (rec.cls or self.cls) is None:  # a plain object (e.g. a function that gets attributes attached)
            rec.fields[name] = value
            return
        s = (rec.cls or self.cls).setters.get(name)
        if s is not None:
            self.run(s, rec, {s.posparams[1]: value})
            return
        if name in (rec.cls or self.cls).getters:
            raise Raised("AttributeError")
        rec.fields[name] = value

    def call_method(self, rec, name, args, kwargs):
        fv = rec.fields.get(name)
        if rec.cls is None and isinstance(fv, tuple) and len(fv) == 2 and fv[0] == "<function>":
            # a plain model object that carries the method as a callable field (a model file, a recorder)
            return fv[1](list(args), dict(kwargs)) if callable(fv[1]) else self.run_free(fv[1], list(args), dict(kwargs))
        if rec.cls is None and self.cls is None:
            raise Raised("AttributeError")
        m = (rec.cls or self.cls).methods.get(name)
        if m is None:
            raise NotSymbolic(f"method {name}")
        env = dict(zip(m.posparams[1:], args))
        env.update(kwargs)
        return self.run(m, rec, env)

    # ------------------------------------------------------------------ interpreter
    def run(self, func, rec, env):
        self.depth += 1
        if self.depth > 8:
            raise NotSymbolic("accessor recursion")
        local = dict(env)
        local[func.posparams[0]] = rec
        saved_mod = getattr(self, "module", None)
        self.module = func.module
        try:
            self._block(func.body, local)
            return None
        except _Return as r:
            return r.value
        finally:
            self.depth -= 1
            self.module = saved_mod

    def run_free(self, func, args, kwargs, closure=None):
        if getattr(func, "is_generator", False) and (self.__dict__.get("eager_generators") or self.depth >= 1) and self.__dict__.get("_in_generator") is not func:
            # (a generator function called from evaluated code -- depth >= 1 -- is always run to its end: its `yield`
            # must not surface as the outcome of the caller's evaluation)
            # a generator function called for its value: run to the end now, the values in order (event order of an
            # eager run; laziness itself is a structural clause decided elsewhere)
            saved_c, saved_g = self.__dict__.get("collect_yields"), self.__dict__.get("_in_generator")
            self.collect_yields, self._in_generator = [], func
            try:
                self.run_free(func, args, kwargs, closure)
                return list(self.collect_yields)
            finally:
                self.collect_yields, self._in_generator = saved_c, saved_g
        """A module-level helper called from an accessor (`closure`: the enclosing function's variables for a
        nested function -- read-only: a nested function that rebinds them is outside the fragment)."""
        self.depth += 1
        if self.depth > 8:
            raise NotSymbolic("helper recursion")
        local = {k: v for k, v in (closure or {}).items() if k not in func.posparams}
        if len(args) > len(func.posparams) and not getattr(func, "vararg", None):
            self.depth -= 1
            raise Raised("TypeError")
        local.update(zip(func.posparams, args))
        extra_kw = {}
        for k, v in kwargs.items():
            if k in func.params:
                local[k] = v
            elif func.kwarg:
                extra_kw[k] = v
            else:
                raise Raised("TypeError")
        if func.kwarg:
            local[func.kwarg] = extra_kw
        for p_ in func.posparams + func.kwonly:
            if p_ not in local:
                d = func.default_of(p_)
                if d is None:
                    raise NotSymbolic(f"missing argument {p_}")
                local[p_] = self._eval(d, {})
        saved_mod = getattr(self, "module", None)
        self.module = func.module
        try:
            self._block(func.body, local)
            return None
        except _Return as r:
            return r.value
        finally:
            self.depth -= 1
            self.module = saved_mod

    def _block(self, stmts, local):
        for st in stmts:
            self.ticks += 1
            if self.ticks > self.limit * 50:
                raise NotSymbolic("step limit")
            try:
                self._stmt(st, local)
            except (IndexError, KeyError) as exc:
                # an index / key outside a container of the evaluated program: the program text raises here
                raise Raised(type(exc).__name__) from exc
            except ValueError as exc:
                # numpy refused an operation of the program on concrete arrays (shapes that do not broadcast, ...)
                raise Raised("ValueError") from exc
            except (TypeError, AttributeError, ZeroDivisionError, OverflowError) as exc:
                # more likely a limit of this evaluator than of the program: undecided, never a verdict
                raise NotSymbolic(f"{type(exc).__name__} while evaluating line {getattr(st, 'lineno', '?')}: {str(exc)[:80]}") from exc

    def _eval(self, e, local):
        ev = _Expr(local, self)
        v = ev.eval(e)
        return v

    def _stmt(self, st, local):
        if isinstance(st, ast.Expr):
            if isinstance(st.value, ast.Constant):
                return
            if isinstance(st.value, (ast.Yield, ast.YieldFrom)):
                sink_ = self.__dict__.get("collect_yields")
                if sink_ is None:
                    raise Yielded(st.value, local)
                # collecting mode: the generator is run to its end and what it yields is recorded in order
                if isinstance(st.value, ast.Yield):
                    sink_.append(self._eval(st.value.value, local) if st.value.value is not None else None)
                else:
                    v_ = self._eval(st.value.value, local)
                    sink_.extend(list(v_))
                return
            self._eval(st.value, local)
            return
        if isinstance(st, ast.With):
            exits = []
            # `with contextlib.redirect_stdout(<model file>):` -- print() without a file goes to that file for the body
            # (that this touches the process-wide sys.stdout is C16's clause, decided there from the call itself)
            if len(st.items) == 1 and isinstance(st.items[0].context_expr, ast.Call) and len(st.items[0].context_expr.args) == 1 and not st.items[0].context_expr.keywords:
                ce_ = st.items[0].context_expr
                mod_ = getattr(self, "module", None) or (self.cls.module if self.cls else None)
                r_ = self.prog.resolve_expr(None, mod_, ce_.func) if mod_ is not None else None
                if r_ is not None and r_[0] == "external" and r_[1] == "contextlib.redirect_stdout":
                    target = self._eval(ce_.args[0], local)
                    if not isinstance(target, TextSink):
                        raise NotSymbolic("redirect_stdout to something that is not a model output file")
                    saved_out = self.__dict__.get("stdout")
                    self.stdout = target
                    if st.items[0].optional_vars is not None:
                        self._assign(st.items[0].optional_vars, target, local)
                    try:
                        self._block(st.body, local)
                    finally:
                        if saved_out is None:
                            self.__dict__.pop("stdout", None)
                        else:
                            self.stdout = saved_out
                    return
            for item in st.items:
                cm = self._eval(item.context_expr, local)
                entered = cm
                if isinstance(cm, Rec) and cm.cls is not None and "__enter__" in cm.cls.methods:
                    entered = self.call_method(cm, "__enter__", [], {})
                    exits.append(cm)
                elif isinstance(cm, Rec) and isinstance(cm.fields.get("__enter__"), tuple):
                    entered = cm.fields["__enter__"][1]([], {})
                    exits.append(cm)
                if item.optional_vars is not None:
                    self._assign(item.optional_vars, entered, local)
            try:
                self._block(st.body, local)
            finally:
                for cm in reversed(exits):
                    if cm.cls is not None and "__exit__" in cm.cls.methods:
                        self.call_method(cm, "__exit__", [None, None, None], {})
                    elif isinstance(cm.fields.get("__exit__"), tuple):
                        cm.fields["__exit__"][1]([None, None, None], {})
            return
        if isinstance(st, ast.While):
            n_iter = 0
            broke = False
            while _Expr._truth(self._eval(st.test, local)):
                n_iter += 1
                if n_iter > 200:
                    raise NotSymbolic("while loop does not end within 200 iterations")
                try:
                    self._block(st.body, local)
                except _Break:
                    broke = True
                    break
                except _Continue:
                    continue
            if not broke:
                self._block(st.orelse, local)
            return
        if isinstance(st, ast.Try):
            try:
                try:
                    self._block(st.body, local)
                except Raised as r:
                    for h in st.handlers:
                        names = []
                        if h.type is None:
                            names = ["BaseException"]
                        else:
                            for t_ in (h.type.elts if isinstance(h.type, ast.Tuple) else [h.type]):
                                names.append(t_.id if isinstance(t_, ast.Name) else getattr(t_, "attr", "?"))
                        cls_ = r.args[0]
                        if cls_ in names or "BaseException" in names or ("Exception" in names and cls_ not in ("KeyboardInterrupt", "SystemExit", "GeneratorExit")):
                            if h.name:
                                local[h.name] = Rec(None, cls_name=cls_)
                            self._block(h.body, local)
                            break
                    else:
                        raise
                else:
                    self._block(st.orelse, local)
            finally:
                self._block(st.finalbody, local)
            return
        if isinstance(st, ast.Return):
            raise _Return(self._eval(st.value, local) if st.value is not None else None)
        if isinstance(st, ast.Raise):
            e = st.exc.func if isinstance(st.exc, ast.Call) else st.exc
            raise Raised(e.id if isinstance(e, ast.Name) else getattr(e, "attr", "Exception"))
        if isinstance(st, ast.If):
            t = self._eval(st.test, local)
            self._block(st.body if _Expr._truth(t) else st.orelse, local)
            return
        if isinstance(st, ast.Assign):
            val = self._eval(st.value, local)
            for t in st.targets:
                self._assign(t, val, local)
            return
        if isinstance(st, ast.AugAssign):
            cur = self._eval(st.target, local)
            binop = ast.BinOp(left=ast.Name(id="__cur", ctx=ast.Load()), op=st.op, right=st.value)
            loc2 = dict(local)
            loc2["__cur"] = cur
            self._assign(st.target, self._eval(binop, loc2), local)
            return
        if isinstance(st, ast.Pass):
            return
        if isinstance(st, ast.For):
            seq = None
            if isinstance(st.iter, ast.Call) and isinstance(st.iter.func, ast.Name) and st.iter.func.id in ("zip", "enumerate") and st.iter.func.id not in local and not st.iter.keywords:
                parts = [self._eval(a, local) for a in st.iter.args]
                if any(isinstance(p_, Rec) for p_ in parts):
                    # zip / enumerate over the model LineIterator: items are pulled source by source, one round at
                    # a time, exactly as the builtins do (a round stops at the first exhausted source)
                    owner = self

                    def _pull(rec):
                        while True:
                            try:
                                yield owner.call_method(rec, "__next__", [], {})
                            except Raised as r_:
                                if r_.args[0] == "StopIteration":
                                    return
                                raise

                    srcs = [_pull(p_) if isinstance(p_, Rec) else iter([p_[i] for i in range(p_.shape[0])] if isinstance(p_, np.ndarray) else list(p_)) for p_ in parts]
                    if st.iter.func.id == "enumerate":
                        import itertools

                        srcs = [itertools.count(0), srcs[0]]
                    seq = zip(*srcs)
            if seq is None:
                seq = self._eval(st.iter, local)
            if isinstance(seq, Rec):
                # an instance with __next__ (the model LineIterator): items are drawn one by one, so that a `break`
                # leaves the rest in the iterator
                owner = self

                def _draw(rec=seq):
                    k = 0
                    while True:
                        k += 1
                        if k > 2000:
                            raise NotSymbolic("iterator does not end within 2000 items")
                        try:
                            yield owner.call_method(rec, "__next__", [], {})
                        except Raised as r_:
                            if r_.args[0] == "StopIteration":
                                return
                            raise

                items = _draw()
            else:
                items = list(seq) if not isinstance(seq, np.ndarray) else [seq[i] for i in range(seq.shape[0])]
            broke = False
            for item in items:
                self._assign(st.target, item, local)
                try:
                    self._block(st.body, local)
                except _Break:
                    broke = True
                    break
                except _Continue:
                    continue
            if not broke:
                self._block(st.orelse, local)
            return
        if isinstance(st, ast.Break):
            raise _Break()
        if isinstance(st, ast.Continue):
            raise _Continue()
        if isinstance(st, ast.Delete):
            for t in st.targets:
                if isinstance(t, ast.Name):
                    if t.id not in local:
                        raise Raised("NameError")
                    del local[t.id]
                elif isinstance(t, ast.Subscript):
                    base = self._eval(t.value, local)
                    if isinstance(base, (dict, list)):
                        del base[_Expr(local, self).eval(t.slice) if isinstance(base, dict) else _Expr(local, self)._index(t.slice)]
                    else:
                        raise NotSymbolic("del on a non-container")
                else:
                    raise NotSymbolic("del target")
            return
        if isinstance(st, ast.FunctionDef):
            g = next((h for h in self.prog.funcs.values() if h.node is st), None)
            gen_ok = bool(self.__dict__.get("eager_generators"))
            if g is None or any(isinstance(x, ast.Nonlocal) or (isinstance(x, (ast.Yield, ast.YieldFrom)) and not gen_ok) for x in ast.walk(st)) or st.decorator_list:
                raise NotSymbolic(f"nested function {st.name}")
            fn_ = lambda args, kw, g=g, local=local: self.run_free(g, args, kw, closure=local)  # noqa: E731
            fn_.func = g  # (for reports: which nested function this value is)
            local[st.name] = ("<function>", fn_)
            return
        if isinstance(st, ast.Global):
            local["<global names>"] = set(local.get("<global names>", ())) | set(st.names)
            return
        raise NotSymbolic(f"statement kind {type(st).__name__}")

    def _assign(self, t, val, local):
        if isinstance(t, ast.Name):
            if t.id in local.get("<global names>", ()):
                # `global X` in this function: the module's state for the rest of this evaluation
                mod = getattr(self, "module", None) or self.cls.module
                self.__dict__.setdefault("_globals", {})[(mod.name, t.id)] = val
                return
            local[t.id] = val
            return
        if isinstance(t, (ast.Tuple, ast.List)):
            vals = list(val) if not isinstance(val, np.ndarray) else [val[i] for i in range(val.shape[0])]
            if len(vals) != len(t.elts):
                raise Raised("ValueError")
            for tt, vv in zip(t.elts, vals):
                self._assign(tt, vv, local)
            return
        if isinstance(t, ast.Attribute):
            # flags.writeable = False on a derived array: no effect on values
            if t.attr == "writeable" and isinstance(t.value, ast.Attribute) and t.value.attr == "flags":
                return
            base = self._eval(t.value, local)
            if isinstance(base, Rec):
                self.set(base, t.attr, val)
                return
            raise NotSymbolic("attribute store on a non-instance")
        if isinstance(t, ast.Subscript):
            base = self._eval(t.value, local)
            if isinstance(base, np.ndarray):
                idx = _Expr(local, self)._index(t.slice)
                v = val
                if isinstance(v, (list, tuple)):
                    v = np.array(v, dtype=base.dtype)
                if base.dtype != object and (isinstance(v, Sym) or (isinstance(v, np.ndarray) and v.dtype == object)):
                    # constant symbolic values (numbers that went through symbolic arithmetic) stored in a numeric array
                    va = np.asarray(v, dtype=object)
                    flat = [Sym.const(x) for x in va.ravel()]
                    if any(m != () for x in flat for m in x.terms):
                        raise NotSymbolic("symbolic value stored in a numeric array")
                    v = np.array([float(x.terms.get((), 0)) for x in flat]).reshape(va.shape)
                base[idx] = v
                return
            if isinstance(base, dict):
                base[_Expr(local, self).eval(t.slice)] = val
                return
            if isinstance(base, list):
                base[_Expr(local, self)._index(t.slice)] = val
                return
            if base is None:
                raise Raised("TypeError")  # 'NoneType' object does not support item assignment
            raise NotSymbolic("subscript store on a non-array")
        raise NotSymbolic("assignment target")
