"""E4 -- ownership / effect domain for E-core.

Tag = frozenset of atoms:
  'F'            fresh (allocated here / result of arithmetic / explicit copy)
  'S'            scalar / immutable
  ('B', root)    borrowed from the caller's object `root` (a parameter name)
  ('G', name)    a module-level object of the package (qualified name)
  'U'            unknown
A mutation sink applied to a value whose tag has a B/G atom is reported.
"""

from __future__ import annotations

import ast

from ..absint import Domain, V, _NOKEY
from ..model import src_of

F = frozenset(["F"])
S = frozenset(["S"])
U = frozenset(["U"])
EMPTY = frozenset()

MUTATING_METHODS = {
    "append", "extend", "insert", "pop", "remove", "clear", "sort", "reverse", "update", "setdefault",
    "popitem", "add", "discard", "fill", "resize", "put", "itemset", "setflags", "partition", "byteswap",
    "__setitem__", "__delitem__", "__iadd__", "intersection_update", "difference_update", "symmetric_difference_update",
}
# methods returning a view / the members of the receiver (ownership is kept)
VIEW_METHODS = {
    "get", "items", "values", "keys", "reshape", "ravel", "transpose", "view", "squeeze", "swapaxes", "diagonal",
    "__getitem__", "setdefault",
}
# methods returning a fresh object
COPY_METHODS = {
    "copy", "astype", "tolist", "flatten", "sum", "mean", "min", "max", "dot", "round", "clip", "nonzero", "all", "any",
    "strip", "split", "lower", "upper", "format", "join", "replace", "title", "index", "count", "startswith", "endswith",
    "lstrip", "rstrip", "splitlines", "encode", "decode", "center", "ljust", "rjust", "zfill", "argsort", "cumsum", "prod",
    "conj", "std", "var", "trace", "item", "tobytes", "isdigit", "isalpha", "find", "capitalize", "casefold", "isoformat",
    "argmax", "argmin", "take", "repeat", "compress", "searchsorted", "union", "intersection", "difference",
}
VIEW_ATTRS = {"T", "flat", "real", "imag", "shells", "conventions"}
VIEW_EXTERNALS = {
    "numpy.asarray", "numpy.reshape", "numpy.ravel", "numpy.transpose", "numpy.squeeze", "numpy.atleast_1d", "numpy.atleast_2d",
    "numpy.asanyarray", "numpy.ascontiguousarray", "numpy.swapaxes", "numpy.diagonal", "numpy.broadcast_to", "numpy.moveaxis",
    "numpy.expand_dims", "builtins.iter", "builtins.reversed", "builtins.zip", "builtins.enumerate", "builtins.next",
    "builtins.getattr", "builtins.vars", "builtins.map", "builtins.filter",
}
INPLACE_EXTERNALS = {  # external function -> index of the argument it mutates
    "numpy.fill_diagonal": 0, "numpy.random.shuffle": 0, "random.shuffle": 0, "numpy.put": 0, "numpy.place": 0,
    "numpy.copyto": 0, "numpy.putmask": 0, "numpy.ndarray.sort": 0, "operator.iadd": 0, "operator.imul": 0,
    "operator.setitem": 0, "operator.delitem": 0, "builtins.setattr": 0, "builtins.delattr": 0, "heapq.heappush": 0,
    "heapq.heapify": 0, "bisect.insort": 0, "numpy.add.at": 0,
}


def has_owner(tag):
    return any(isinstance(a, tuple) for a in tag)


def owners(tag):
    return sorted(a for a in tag if isinstance(a, tuple))


class OwnDomain(Domain):
    name = "ownership"

    def __init__(self, prog, roots=None, track_globals=False, scalar_attrs=None, immutable_globals=None):
        self.prog = prog
        self.roots = roots or {}  # func.qualname -> set of parameter names that are borrowed roots
        self.track_globals = track_globals
        self.scalar_attrs = scalar_attrs or set()
        self.sinks = []  # (func, node, kind, tag, detail)
        self.immutable_globals = immutable_globals or set()

    # lattice
    def bottom(self):
        return EMPTY

    def top(self):
        return U

    def join(self, a, b):
        if a == b:
            return a
        return (a or EMPTY) | (b or EMPTY)

    def absent(self):
        return EMPTY

    def const(self, value, node):
        return S

    def fresh(self, kind, node):
        return F

    def unknown(self, node):
        return U

    def param(self, func, name, index):
        if name in self.roots.get(func.qualname, ()):
            return frozenset([("B", name)])
        return U

    def global_ref(self, resolved, node):
        if resolved[0] == "global" and self.track_globals:
            return frozenset([("G", f"{resolved[1].name}.{resolved[2]}")])
        return S if resolved[0] in ("func", "class", "module", "external") else U

    def load_global(self, it, r, node, st):
        if not self.track_globals:
            return V(U)
        b = r[3]
        # immutable module constants (numbers, strings, tuples of those) cannot be mutated
        val = b.value
        if b.index is None and isinstance(val, ast.Constant):
            return V(S)
        return V(frozenset([("G", f"{r[1].name}.{r[2]}")]))

    # transfer
    def attr(self, it, base, name, node, st):
        o = it.obj(st, base)
        if o is not None and ("." + name) in o.slots:
            return o.slots["." + name]
        if o is not None and o.meta.get("shallow_of") is not None:
            return self.attr(it, o.meta["shallow_of"], name, node, st) or V(o.meta["shallow_of"].tag)
        if has_owner(base.tag):
            if name in self.scalar_attrs or name in ("shape", "size", "ndim", "dtype", "name", "lineno", "filename"):
                return V(S)
            return V(base.tag)
        if name in ("shape", "size", "ndim", "dtype"):
            return V(S)
        return None

    def subscript(self, it, base, index, const_key, node, st):
        o = it.obj(st, base)
        if o is not None:
            return None  # structural lookup by the interpreter
        if has_owner(base.tag):
            # fancy indexing copies; basic indexing / slices are views; dict/list members are shared
            sl = node.slice
            if self._is_fancy(it, sl, index, st):
                return V(F)
            return V(base.tag)
        return V(base.tag)

    def _is_fancy(self, it, sl, index, st):
        if isinstance(sl, (ast.List, ast.ListComp)):
            return True
        if isinstance(sl, ast.Tuple):
            return any(self._is_fancy(it, e, None, st) for e in sl.elts)
        if isinstance(sl, ast.Call):
            nm = src_of(sl.func)
            return nm.endswith(("tril_indices", "triu_indices", "nonzero", "where", "array", "argsort", "arange", "ix_"))
        if index is not None and index.tag and "FANCY" in index.tag:
            return True
        if isinstance(sl, ast.Compare):
            return True
        return False

    def binop(self, it, op, l, r, node, st):
        # arithmetic always allocates; `%` on strings formats
        if isinstance(node, ast.AugAssign):
            return V(l.tag, l.ref)
        return V(F)

    def unaryop(self, it, op, v, node, st):
        return V(F)

    def compare(self, it, node, vals, st):
        return V(S)

    def format(self, it, vals, node, st):
        return V(S)

    def iter_elem(self, it, v, node, st):
        if it.obj(st, v) is None and has_owner(v.tag):
            return V(v.tag)
        return None

    def unpack(self, it, v, i, n, node, st):
        return V(v.tag)

    def call_unknown(self, it, node, args, kwargs, st):
        return V(U)

    def construct(self, it, ci, args, kwargs, node, st):
        return None

    def call_external(self, it, nm, args, kwargs, node, st):
        func = it.stack[-1].func
        if "out" in kwargs and has_owner(kwargs["out"].tag):
            self._sink(it, node, "out=", kwargs["out"], f"{nm}(..., out=<borrowed>)")
        if nm in INPLACE_EXTERNALS:
            i = INPLACE_EXTERNALS[nm]
            if i < len(args) and self._owned_or_holds(it, args[i], st, deep=False):
                self._sink(it, node, "inplace-call", args[i], f"{nm} mutates its argument")
            return V(S)
        if nm == "functools.reduce" and args:
            fo = it.obj(st, args[0])
            fn = fo.meta.get("external") if fo is not None else None
            if fn in ("operator.iadd", "operator.imul", "operator.iconcat"):
                if len(args) > 2:
                    if self._owned_or_holds(it, args[2], st, deep=False):
                        self._sink(it, node, "reduce-inplace", args[2], f"functools.reduce({fn}) mutates its initialiser")
                    return V(args[2].tag, args[2].ref)
                # without an initialiser the first element of the sequence is mutated in place
                ev = it.iter_elem(args[1], node, st) if len(args) > 1 else V(U)
                if has_owner(ev.tag):
                    self._sink(it, node, "reduce-inplace", ev, f"functools.reduce({fn}, seq) without initialiser extends the first element of seq in place")
                return V(ev.tag)
            return V(U)
        if nm in ("attrs.evolve", "attr.evolve", "copy.copy", "dataclasses.replace") and args:
            slots = {"." + k: v for k, v in kwargs.items() if k != "**"}
            return it.new(st, "obj", node, slots=slots, meta={"shallow_of": args[0]}, tag=F)
        if nm in ("attrs.asdict", "attr.asdict") and args:
            # recurse=False: a new dict whose values are the instance's own field values (the caller's containers);
            # the default (recurse=True) rebuilds nested attrs instances, dicts and lists
            shallow = any(k.arg == "recurse" and isinstance(k.value, ast.Constant) and k.value.value is False for k in getattr(node, "keywords", []))
            return it.new(st, "dict", node, elem=V(args[0].tag) if shallow else V(F), tag=F)
        if nm in ("numpy.array", "numpy.require") and args and any(k.arg == "copy" and isinstance(k.value, ast.Constant) and k.value.value is False for k in getattr(node, "keywords", [])):
            # np.array(x, copy=False): a view of the argument whenever no conversion is needed
            return V(args[0].tag, args[0].ref)
        if nm in VIEW_EXTERNALS and args:
            r = it.default_external(nm, args, kwargs, node, st)
            if r is not None:
                return r
            t = EMPTY
            for a in args:
                t = self.join(t, a.tag)
            return V(t)
        if nm in ("builtins.list", "builtins.tuple", "builtins.dict", "builtins.set", "builtins.sorted", "builtins.frozenset"):
            r = it.default_external(nm, args, kwargs, node, st)
            if r is not None:
                o = it.mobj(st, r)
                if args and it.obj(st, args[0]) is None and has_owner(args[0].tag) and o is not None:
                    # members of the new container are the caller's members
                    o.elem = V(args[0].tag) if o.elem is None else it.join_v(o.elem, V(args[0].tag), st)
                return V(F, r.ref)
        if nm.startswith("builtins.") and nm.split(".")[1] in ("int", "float", "str", "bool", "len", "round", "abs", "sum", "min", "max", "repr", "format", "hash", "id", "isinstance", "hasattr", "type", "any", "all", "range", "ord", "chr", "divmod", "callable"):
            return V(S)
        if nm == "builtins.print" or nm.endswith(".write"):
            return V(S)
        # numpy / scipy functions allocate their results
        if nm.startswith(("numpy.", "scipy.", "math.", "json.", "copy.deepcopy", "warnings.", "textwrap.", "re.", "fnmatch.", "os.path.")):
            return V(F)
        return V(U)

    def call_method(self, it, base, name, args, kwargs, node, st):
        if "out" in kwargs and has_owner(kwargs["out"].tag):
            self._sink(it, node, "out=", kwargs["out"], f".{name}(..., out=<borrowed>) writes into the caller's array")
        o = it.obj(st, base)
        if name in MUTATING_METHODS:
            if has_owner(base.tag):
                self._sink(it, node, "method", base, f".{name}() on a value owned by {owners(base.tag)}")
        if o is not None:
            return None
        if name in VIEW_METHODS:
            return V(base.tag)
        if name in COPY_METHODS:
            return V(F)
        if name in MUTATING_METHODS:
            return V(base.tag if name in ("pop", "setdefault") else S)
        if has_owner(base.tag):
            return V(base.tag)  # unknown method of a borrowed object: may return a member
        return V(U)

    def _owned_or_holds(self, it, v, st, deep):
        return has_owner(v.tag)

    # sinks
    def on_store(self, it, kind, base, key, value, node, st):
        func = it.stack[-1].func
        if kind in ("global", "nonlocal"):
            if self.track_globals and kind == "global":
                self.sinks.append((func, node, "global-rebind", frozenset([("G", f"{func.module.name}.{key}")]), f"`global {key}` rebinding", [f.func.qualname for f in it.stack]))
            return
        if self.track_globals and kind in ("attr", "subscript", "delattr", "del"):
            # state kept on a function, class or module object (`f.cache = ...`, `LineIterator.count += 1`,
            # `periodic.table[...] = ...`) outlives the call just like a module-level variable
            bo = it.obj(st, base)
            if bo is not None and bo.kind in ("func", "class", "module"):
                name = bo.meta.get("qualname") or bo.meta.get("name") or "?"
                self.sinks.append((func, node, "object-state", frozenset([("G", f"{bo.kind}:{name}")]), f"{'attribute' if 'attr' in kind else 'item'} store on the {bo.kind} object `{name}`: state that survives the call", [f.func.qualname for f in it.stack]))
                return
        if kind == "aug":
            # x += y on a name: in-place for arrays/lists; harmless for scalars
            tgt = node.target
            if isinstance(tgt, ast.Name):
                if has_owner(base.tag) and "S" not in base.tag:
                    self._sink(it, node, "augassign", base, f"in-place `{src_of(node)[:50]}` on a value owned by {owners(base.tag)}")
            return
        if has_owner(base.tag):
            what = {"subscript": "item assignment", "attr": f"attribute assignment .{key}", "del": "item deletion", "delattr": "attribute deletion"}.get(kind, kind)
            self._sink(it, node, kind, base, f"{what} on a value owned by {owners(base.tag)}")

    def _sink(self, it, node, kind, v, detail):
        func = it.stack[-1].func
        self.sinks.append((func, node, kind, v.tag, detail, [f.func.qualname for f in it.stack]))
