"""E5 -- unit-tag domain for E-core.

Tag = frozenset of monomials; a monomial is a sorted tuple of (symbol, exponent)
pairs over the unit constants of iodata.utils (plus opaque symbols such as
`volume` and, for writers, `@attr` markers for the caller's attributes).
frozenset() is bottom (a freshly allocated, not yet filled value);
{()} is a plain number exactly as parsed from the file.
"""

from __future__ import annotations

import ast
from fractions import Fraction

from ..absint import Domain, V, _NOKEY

UNIT_NAMES = ("angstrom", "electronvolt", "meter", "nanometer", "second", "picosecond", "amu", "kcalmol", "calmol", "kjmol")
PLAIN = frozenset([()])
BOT = frozenset()
MAXSET = 6


def mono(d):
    return tuple(sorted((k, v) for k, v in d.items() if v != 0))


def mmul(a, b, sign=1):
    d = dict(a)
    for k, v in b:
        d[k] = d.get(k, 0) + sign * v
    return mono(d)


def tmul(A, B, sign=1):
    if not A and not B:
        return BOT
    if not A:
        A = PLAIN
    if not B:
        B = PLAIN
    out = frozenset(mmul(a, b, sign) for a in A for b in B)
    if len(out) > MAXSET:
        return frozenset([(("?", 1),)])
    return out


def tneg(A):
    return frozenset(mono({k: -v for k, v in a}) for a in A)


def show(tag):
    if not tag:
        return "<unset>"
    parts = []
    for m in sorted(tag):
        if not m:
            parts.append("{}")
        else:
            parts.append("·".join(f"{k}" if v == 1 else f"{k}^{v}" for k, v in m))
    return " | ".join(parts)


PASS_EXTERNALS = {
    "numpy.array", "numpy.asarray", "numpy.reshape", "numpy.concatenate", "numpy.stack", "numpy.vstack", "numpy.hstack",
    "numpy.ravel", "numpy.transpose", "numpy.squeeze", "numpy.sum", "numpy.abs", "numpy.absolute", "numpy.max", "numpy.min",
    "numpy.round", "numpy.copy", "numpy.atleast_2d", "numpy.atleast_1d", "numpy.fromiter", "numpy.mean", "numpy.diag",
    "numpy.linalg.norm", "numpy.cross0", "numpy.loadtxt", "numpy.fromstring", "numpy.frombuffer", "numpy.tile", "numpy.repeat",
    "numpy.flip", "numpy.sort", "numpy.unique0", "numpy.float64", "builtins.float", "builtins.abs", "builtins.sum", "builtins.max",
    "builtins.min", "builtins.round", "builtins.list", "builtins.tuple", "builtins.sorted", "builtins.reversed", "numpy.column_stack",
    "numpy.asfarray", "numpy.trace", "numpy.ascontiguousarray", "numpy.swapaxes", "numpy.moveaxis", "numpy.triu", "numpy.tril",
    "numpy.negative", "numpy.nan_to_num", "numpy.clip", "numpy.broadcast_to", "numpy.expand_dims", "builtins.next", "builtins.iter",
    "numpy.diagonal", "numpy.append", "numpy.insert", "numpy.delete", "numpy.take", "numpy.where3",
}
PLAIN_EXTERNALS = {
    "builtins.int", "builtins.str", "builtins.len", "builtins.range", "builtins.bool", "builtins.repr", "numpy.arange",
    "numpy.ones", "numpy.eye", "numpy.identity", "numpy.linspace", "builtins.enumerate0", "builtins.ord", "builtins.chr",
    "numpy.pi", "numpy.nan", "numpy.full", "numpy.sqrt0",
}
FRESH_EXTERNALS = {"numpy.zeros", "numpy.empty", "numpy.zeros_like", "numpy.empty_like"}
PASS_METHODS = {
    "reshape", "astype", "copy", "ravel", "flatten", "transpose", "sum", "tolist", "squeeze", "view", "mean", "max", "min",
    "get", "pop", "round", "item", "swapaxes", "diagonal", "take", "clip", "conj", "cumsum", "strip", "split", "rstrip", "lstrip",
    "lower", "upper", "replace", "title", "rjust", "ljust", "center", "join0", "encode", "decode", "splitlines", "rsplit", "partition",
    "values", "items", "setdefault", "trace", "dot0", "repeat", "T",
}


class UnitDomain(Domain):
    name = "units"

    def __init__(self, prog, attr_sources=None):
        self.prog = prog
        self.attr_sources = attr_sources or {}  # func.qualname -> {param name: marker prefix}
        self.sinks = []  # (func, node, [tags of printed values])
        self.marked_params = set()

    def bottom(self):
        return BOT

    def top(self):
        return frozenset([(("?", 1),)])

    def join(self, a, b):
        if a == b:
            return a
        out = (a or BOT) | (b or BOT)
        if len(out) > MAXSET:
            return self.top()
        return out

    def absent(self):
        return BOT

    def const(self, value, node):
        if value is None:
            return BOT
        if isinstance(value, (int, float)) and not isinstance(value, bool) and value == 0:
            return BOT  # zero is zero in every unit
        return PLAIN

    def fresh(self, kind, node):
        return BOT

    def unknown(self, node):
        return PLAIN

    def param(self, func, name, index):
        if name in self.attr_sources.get(func.qualname, ()):
            return frozenset([(("@" + name, 1),)])
        return PLAIN

    def global_ref(self, resolved, node):
        if resolved[0] == "global" and resolved[1].name == "iodata.utils" and resolved[2] in UNIT_NAMES:
            return frozenset([((resolved[2], 1),)])
        return PLAIN

    def const_of(self, it, v, st):
        return _NOKEY

    def load_global(self, it, r, node, st):
        if r[1].name == "iodata.utils" and r[2] in UNIT_NAMES:
            return V(frozenset([((r[2], 1),)]))
        return it.load_const_global(r, node, st)

    # transfer
    def attr(self, it, base, name, node, st):
        o = it.obj(st, base)
        if o is not None and ("." + name) in o.slots:
            return o.slots["." + name]
        # data.<attr> of a marked parameter: the attribute becomes its own symbol
        roots = [m[0][0] for m in base.tag if len(m) == 1 and m[0][0].startswith("@") and m[0][1] == 1]
        if roots:
            root = roots[0]
            if root[1:] in self.marked_roots():
                if name in ("shape", "size", "ndim", "dtype", "natom", "nbasis", "norb", "norba", "norbb", "kind", "title", "lot"):
                    return V(PLAIN)
                return V(frozenset([(("@" + name, 1),)]))
        if name in ("shape", "size", "ndim", "dtype"):
            return V(PLAIN)
        if o is not None and o.kind == "array":
            return V(base.tag, base.ref)
        return V(base.tag)

    def marked_roots(self):
        out = set()
        for d in self.attr_sources.values():
            out |= set(d)
        return out

    def subscript(self, it, base, index, const_key, node, st):
        o = it.obj(st, base)
        if o is not None and o.kind == "array":
            return V(base.tag, base.ref)  # views share the array object
        if o is not None:
            return None
        return V(base.tag)

    def intercept_call(self, it, g, args, kwargs, node, st):
        if g.qualname == "iodata.utils.volume":
            return V(frozenset([(("volume", 1),)]))
        return None

    def store_into_scalar(self, it, base, key, value, node, st):
        """arr[i] = v on an array value without heap object: weak update of the array's tag."""
        vt = value.tag
        o = it.obj(st, value)
        if o is not None:
            ev = it.iter_elem(value, node, st)
            vt = self.join(vt, ev.tag)
        return V(self.join(base.tag, vt), base.ref)

    def binop(self, it, op, l, r, node, st):
        if isinstance(node, ast.AugAssign):
            o = it.obj(st, l)
            if o is not None and o.kind == "array":
                res = self.binop(it, op, V(self._deep(it, l, st)), r, None, st)
                mo = it.mobj(st, l)
                tg = node.target
                whole = isinstance(tg, (ast.Name, ast.Attribute))
                if isinstance(tg, ast.Subscript):
                    try:
                        bo = it.obj(st, it.eval(tg.value, st))
                    except Exception:  # noqa: BLE001
                        bo = None
                    if bo is None or bo.kind != "array":
                        whole = True  # `d["key"] *= f`: the item of a container is the whole array
                if isinstance(tg, ast.Subscript) and not whole:
                    parts = tg.slice.elts if isinstance(tg.slice, ast.Tuple) else [tg.slice]
                    whole = all((isinstance(p_, ast.Slice) and p_.lower is None and p_.upper is None and p_.step is None) or (isinstance(p_, ast.Constant) and p_.value is Ellipsis) for p_ in parts)
                if whole:
                    # in-place arithmetic on a whole array: every element is updated
                    mo.elem = V(res.tag)
                    mo.slots = {}
                else:
                    # `a[:, :2] *= f`, `a[0] *= f`: only part of the array is updated; the rest keeps its old unit
                    old_ = mo.elem.tag if mo.elem is not None else self._deep(it, l, st)
                    mo.elem = V(self.join(old_, res.tag))
                    mo.slots = {k: V(self.join(v.tag, res.tag)) for k, v in mo.slots.items()}
                return V(BOT, l.ref)
        lt, rt = self._deep(it, l, st), self._deep(it, r, st)
        if isinstance(op, (ast.Mult, ast.MatMult)):
            return V(tmul(lt, rt))
        if isinstance(op, (ast.Div, ast.FloorDiv)):
            return V(tmul(lt, rt, -1))
        if isinstance(op, ast.Pow):
            e = None
            rn = node.right if isinstance(node, ast.BinOp) else None
            if isinstance(rn, ast.Constant) and isinstance(rn.value, (int, float)):
                e = rn.value
            elif isinstance(rn, ast.UnaryOp) and isinstance(rn.op, ast.USub) and isinstance(rn.operand, ast.Constant):
                e = -rn.operand.value
            if e is not None and lt and all(m == () for m in lt):
                return V(PLAIN)
            if e is not None and float(e).is_integer():
                return V(frozenset(mono({k: v * int(e) for k, v in m}) for m in lt))
            return V(lt)
        if isinstance(op, (ast.Add, ast.Sub)):
            if isinstance(l.tag, frozenset) and isinstance(r.tag, frozenset):
                if not lt:
                    return V(rt)
                if not rt:
                    return V(lt)
                return V(self.join(lt, rt))
        if isinstance(op, ast.Mod):
            return V(lt or rt)
        return V(self.join(lt, rt))

    def _deep(self, it, v, st, depth=3):
        """Tag of a value including the elements of container objects (nested lists of numbers)."""
        o = it.obj(st, v)
        if o is None or o.kind in ("func", "class", "module", "external", "obj") or depth == 0:
            return v.tag
        t = v.tag
        parts = list(o.slots.values()) if o.kind != "dict" or True else []
        if o.elem is not None:
            parts.append(o.elem)
        for sv in parts:
            t = self.join(t, self._deep(it, sv, st, depth - 1))
        return t

    def unaryop(self, it, op, v, node, st):
        return V(self._deep(it, v, st))

    def compare(self, it, node, vals, st):
        return V(PLAIN)

    def format(self, it, vals, node, st):
        t = BOT
        for v in vals:
            t = self.join(t, self._deep(it, v, st))
        return V(t or PLAIN)

    def iter_elem(self, it, v, node, st):
        if it.obj(st, v) is None:
            return V(v.tag)
        return None

    def unpack(self, it, v, i, n, node, st):
        return V(v.tag)

    def call_unknown(self, it, node, args, kwargs, st):
        return V(PLAIN)

    def construct(self, it, ci, args, kwargs, node, st):
        return None

    def call_external(self, it, nm, args, kwargs, node, st):
        func = it.stack[-1].func
        if nm == "builtins.print":
            f = kwargs.get("file")
            tags = [self._deep(it, a, st) for a in args]
            self.sinks.append((func, node, tags, [fr.func.qualname for fr in it.stack]))
            return V(PLAIN)
        if nm in ("json.dump", "json.dumps") and args:
            # the object handed to the JSON encoder is what gets written
            leaves = []

            def walk(v, depth):
                o = it.obj(st, v)
                if o is not None and o.kind in ("dict", "unknown") and depth < 6:
                    for sv in o.slots.values():
                        walk(sv, depth + 1)
                    if o.elem is not None:
                        walk(o.elem, depth + 1)
                else:
                    leaves.append(self._deep(it, v, st))

            walk(args[0], 0)
            self.sinks.append((func, node, leaves, [fr.func.qualname for fr in it.stack]))
            return V(PLAIN)
        if nm in FRESH_EXTERNALS:
            return it.new(st, "array", node, tag=BOT)
        if nm in ("numpy.dot", "numpy.matmul", "numpy.einsum", "numpy.multiply", "numpy.outer", "numpy.inner", "numpy.tensordot", "numpy.cross"):
            aa = [a for a in args if not (it.obj(st, a) is None and a.tag == PLAIN and nm == "numpy.einsum")]
            if nm == "numpy.einsum":
                aa = args[1:]
            t = PLAIN
            for a in aa[:2]:
                t = tmul(t, self._deep(it, a, st))
            return V(t)
        if nm in ("numpy.divide", "numpy.true_divide") and len(args) >= 2:
            return V(tmul(self._deep(it, args[0], st), self._deep(it, args[1], st), -1))
        if nm in ("numpy.linalg.inv", "numpy.linalg.pinv", "numpy.reciprocal") and args:
            return V(tneg(self._deep(it, args[0], st)))
        if nm in ("numpy.linalg.det",) and args:
            return V(frozenset([(("det", 1),)]))
        if nm in ("numpy.linalg.solve",) and len(args) >= 2:
            return V(tmul(self._deep(it, args[1], st), self._deep(it, args[0], st), -1))
        if nm == "numpy.sqrt" and args:
            t = self._deep(it, args[0], st)
            if all(all(v % 2 == 0 for _, v in m) for m in t):
                return V(frozenset(mono({k: v // 2 for k, v in m}) for m in t))
            return V(t)
        if nm in PASS_EXTERNALS or nm.startswith("numpy.") and nm.split(".")[-1] in ("array", "asarray"):
            t = BOT
            for a in args[:1] if nm not in ("numpy.concatenate", "numpy.stack", "numpy.vstack", "numpy.hstack", "numpy.column_stack", "numpy.append") else args[:2]:
                t = self.join(t, self._deep(it, a, st))
            r = it.default_external(nm, args, kwargs, node, st)
            if r is not None and nm.startswith("builtins."):
                return r
            return V(t)
        if nm in PLAIN_EXTERNALS:
            return V(PLAIN)
        if nm == "numpy.full" and len(args) > 1:
            return V(args[1].tag)
        r = it.default_external(nm, args, kwargs, node, st)
        if r is not None:
            return r
        return V(PLAIN)

    def call_method(self, it, base, name, args, kwargs, node, st):
        func = it.stack[-1].func
        o = it.obj(st, base)
        if name == "write":
            tags = [self._deep(it, a, st) for a in args]
            self.sinks.append((func, node, tags, [fr.func.qualname for fr in it.stack]))
            return V(PLAIN)
        if name == "join" and args:
            return V(self._deep(it, args[0], st) or PLAIN)
        if name == "format":
            return self.format(it, list(args) + list(kwargs.values()), node, st)
        if name == "dot" and args:
            return V(tmul(self._deep(it, base, st), self._deep(it, args[0], st)))
        if name == "fill" and args and o is None:
            return V(BOT)
        if o is not None and o.kind == "array":
            if name in ("reshape", "ravel", "view", "transpose", "squeeze", "swapaxes"):
                return V(base.tag, base.ref)
            return V(self._deep(it, base, st))
        if o is not None:
            return None
        if name in PASS_METHODS:
            return V(base.tag)
        return V(base.tag)
