"""Offset domain for E-core: where does an integer come from and by how much was it shifted?

Atoms of a tag (frozenset):
  ('T', k)        integer parsed from file text, net offset k
  ('L', k)        loop counter (range / enumerate index), net offset k
  ('A', name, k)  element of the caller's index-typed attribute `name`, net offset k
  'O'             anything else
"""

from __future__ import annotations

import ast

from ..absint import Domain, V, _NOKEY

O = frozenset(["O"])
BOT = frozenset()
INDEX_ATTRS = {"bonds", "icenter"}


def shift(tag, c):
    out = set()
    for a in tag:
        if isinstance(a, tuple) and a[0] in ("T", "L"):
            k = a[1] + c
            out.add((a[0], k) if abs(k) <= 3 else "O")
        elif isinstance(a, tuple) and a[0] == "A":
            k = a[2] + c
            out.add(("A", a[1], k) if abs(k) <= 3 else "O")
        else:
            out.add(a)
    return frozenset(out)


def has_index(tag):
    return any(isinstance(a, tuple) for a in tag)


class OffsetDomain(Domain):
    name = "offsets"

    def __init__(self, prog, mode="read", roots=None):
        self.prog = prog
        self.mode = mode
        self.roots = roots or {}
        self.sinks = []  # (kind, func, node, tag, detail)
        self.prints = []  # (func, node, [(tag, expr text)])

    def bottom(self):
        return BOT

    def top(self):
        return O

    def join(self, a, b):
        return (a or BOT) | (b or BOT)

    def absent(self):
        return BOT

    def const(self, value, node):
        return O

    def fresh(self, kind, node):
        return BOT

    def unknown(self, node):
        return O

    def param(self, func, name, index):
        if name in self.roots.get(func.qualname, ()):
            return frozenset([("R", name)])
        return O

    def global_ref(self, resolved, node):
        return O

    def load_global(self, it, r, node, st):
        return it.load_const_global(r, node, st)

    # -- transfer
    def attr(self, it, base, name, node, st):
        o = it.obj(st, base)
        if o is not None and ("." + name) in o.slots:
            return o.slots["." + name]
        if o is not None and o.kind == "array":
            return V(base.tag, base.ref)
        rooted = any(isinstance(a, tuple) and a[0] in ("R", "RA") for a in base.tag)
        if rooted:
            if name in INDEX_ATTRS:
                return V(frozenset([("A", name, 0)]))
            return V(frozenset([("RA", name)]))
        return V(O if not has_index(base.tag) else base.tag)

    def subscript(self, it, base, index, const_key, node, st):
        o = it.obj(st, base)
        # a raw text integer used as a subscript index
        if index is not None:
            for a in self._deep(it, index, st):
                if isinstance(a, tuple) and a[0] == "T" and a[1] not in (-1, 0) and self.mode == "read":
                    self.sinks.append(("subscript", it.stack[-1].func, node, frozenset([a]), "used as an array index"))
        if o is not None and o.kind == "list" and isinstance(base.ref, tuple) and base.ref and base.ref[0] == "const" and index is not None and self.mode == "read":
            # a module-level table (a list) indexed by a code from the file: the code is one-based
            for a in self._deep(it, index, st):
                if isinstance(a, tuple) and a[0] == "T" and a[1] == 0:
                    self.sinks.append(("table-index", it.stack[-1].func, node, frozenset([a]), "used as index into a module-level table"))
        if o is not None and o.kind == "array":
            sl = node.slice
            if isinstance(sl, ast.Tuple) and sl.elts and isinstance(sl.elts[-1], ast.Constant) and isinstance(sl.elts[-1].value, int):
                k = ("col", sl.elts[-1].value)
                if k in o.slots:
                    return o.slots[k]
            return V(base.tag, base.ref)
        if o is not None:
            return None
        t = base.tag
        if any(isinstance(a, tuple) and a[0] == "A" and "." not in a[1] for a in t) and isinstance(node.slice, ast.Tuple) and isinstance(node.slice.elts[-1], ast.Constant):
            c = node.slice.elts[-1].value
            t = frozenset(("A", f"{a[1]}.{c}", a[2]) if isinstance(a, tuple) and a[0] == "A" and "." not in a[1] else a for a in t)
        return V(t)

    def on_store(self, it, kind, base, key, value, node, st):
        """`A[i, j] = v` with i or j an integer parsed from the file: the positions of an array are zero-based, the
        numbers in the file one-based.  Only plain positions are judged; slice bounds may be counts."""
        if self.mode != "read" or kind != "subscript":
            return
        o = it.obj(st, base)
        if o is None or o.kind != "array":
            return
        tgts = []
        for t in ast.walk(node):
            if isinstance(t, ast.Subscript) and isinstance(t.ctx, ast.Store):
                tgts.append(t)
        for t in tgts:
            elts = t.slice.elts if isinstance(t.slice, ast.Tuple) else [t.slice]
            for e in elts:
                if isinstance(e, ast.Slice) or isinstance(e, ast.Constant):
                    continue  # slice bounds are often counts read from the file (`occs[norba : norba + nbeta]`)
                try:
                    v = it.eval(e, st)
                except Exception:  # noqa: BLE001 - an index expression the interpreter cannot evaluate carries no tag
                    continue
                atoms = frozenset(a for a in self._deep(it, v, st) if isinstance(a, tuple) and a[0] == "T")
                if atoms:
                    self.sinks.append(("store-index", it.stack[-1].func, t, atoms, "used as the position of an array store"))

    def binop(self, it, op, l, r, node, st):
        lt, rt = self._deep(it, l, st), self._deep(it, r, st)
        if isinstance(op, (ast.Add, ast.Sub)):
            rn = node.value if isinstance(node, ast.AugAssign) else getattr(node, "right", None)
            ln = node.target if isinstance(node, ast.AugAssign) else getattr(node, "left", None)
            if isinstance(rn, ast.Constant) and isinstance(rn.value, int) and not isinstance(rn.value, bool):
                c = rn.value if isinstance(op, ast.Add) else -rn.value
                return V(shift(lt, c) or O)
            if isinstance(ln, ast.Constant) and isinstance(ln.value, int) and isinstance(op, ast.Add):
                return V(shift(rt, ln.value) or O)
        if has_index(lt) or has_index(rt):
            return V(O)
        return V(O)

    def _deep(self, it, v, st, depth=3):
        o = it.obj(st, v)
        if o is None or o.kind in ("func", "class", "module", "external", "obj", "dict") or depth == 0:
            return v.tag
        t = v.tag
        for sv in list(o.slots.values()) + ([o.elem] if o.elem is not None else []):
            t = self.join(t, self._deep(it, sv, st, depth - 1))
        return t

    def unaryop(self, it, op, v, node, st):
        return V(O)

    def compare(self, it, node, vals, st):
        return V(O)

    def format(self, it, vals, node, st):
        t = BOT
        for v in vals:
            t = self.join(t, self._deep(it, v, st))
        return V(t or O)

    def on_format_spec(self, it, fv, val, st):
        pass

    def iter_elem(self, it, v, node, st):
        if it.obj(st, v) is None:
            return V(v.tag)
        return None

    def unpack(self, it, v, i, n, node, st):
        t = v.tag
        out = set()
        for a in t:
            if isinstance(a, tuple) and a[0] == "A" and "." not in a[1] and a[1] == "bonds":
                out.add(("A", f"{a[1]}.{i}", a[2]))
            else:
                out.add(a)
        return V(frozenset(out))

    def call_unknown(self, it, node, args, kwargs, st):
        return V(O)

    def construct(self, it, ci, args, kwargs, node, st):
        if ci.name == "Shell" and self.mode == "read":
            ic = args[0] if args else kwargs.get("icenter")
            if ic is not None:
                self.sinks.append(("icenter", it.stack[-1].func, node, self._deep(it, ic, st), "Shell center index"))
        return None

    def call_external(self, it, nm, args, kwargs, node, st):
        func = it.stack[-1].func
        if nm == "builtins.int" and args:
            t = self._deep(it, args[0], st)
            if has_index(t):
                return V(t)
            return V(frozenset([("T", 0)]))
        if nm == "builtins.print":
            self.prints.append((func, node, [self._deep(it, a, st) for a in args]))
            return V(O)
        if nm in ("numpy.zeros", "numpy.empty", "numpy.zeros_like", "numpy.empty_like", "numpy.full"):
            return it.new(st, "array", node, tag=BOT)
        if nm in ("numpy.array", "numpy.asarray", "numpy.fromiter", "numpy.genfromtxt", "numpy.loadtxt", "numpy.fromstring"):
            dt = kwargs.get("dtype") or (args[1] if len(args) > 1 else None)
            dtnode = None
            if isinstance(node, ast.Call):
                for k in node.keywords:
                    if k.arg == "dtype":
                        dtnode = k.value
                if dtnode is None and len(node.args) > 1:
                    dtnode = node.args[1]
            isint = isinstance(dtnode, ast.Name) and dtnode.id == "int"
            if args:
                o = it.obj(st, args[0])
                t = self._deep(it, args[0], st)
                if isint and not has_index(t):
                    return V(frozenset([("T", 0)]))
                if o is not None:
                    return V(args[0].tag, args[0].ref)  # keep the row structure
                return V(t)
            return V(O)
        if nm == "builtins.range":
            start = 0
            if isinstance(node, ast.Call) and len(node.args) >= 2 and isinstance(node.args[0], ast.Constant) and isinstance(node.args[0].value, int):
                start = node.args[0].value
            elif isinstance(node, ast.Call) and len(node.args) >= 2:
                # range(<expression>, ...): the numbers start where the expression says, not at zero -- they carry the
                # index nature of the start value (a running serial number, a count), or none
                return it.new(st, "list", node, elem=V(self._deep(it, args[0], st) or O))
            return it.new(st, "list", node, elem=V(frozenset([("L", start)])))
        if nm == "builtins.enumerate":
            start = 0
            if isinstance(node, ast.Call):
                for k in node.keywords:
                    if k.arg == "start" and isinstance(k.value, ast.Constant):
                        start = k.value.value
                if len(node.args) > 1 and isinstance(node.args[1], ast.Constant):
                    start = node.args[1].value
            ev = it.iter_elem(args[0], node, st) if args else V(O)
            t = it.new(st, "tuple", node, slots={0: V(frozenset([("L", start)])), 1: ev})
            return it.new(st, "list", node, elem=t)
        if nm in ("builtins.len", "builtins.float", "builtins.str", "builtins.abs", "builtins.sum", "builtins.max", "builtins.min", "builtins.round", "builtins.bool"):
            return V(O)
        r = it.default_external(nm, args, kwargs, node, st)
        if r is not None:
            return r
        if nm.startswith("numpy.") and args:
            t = self._deep(it, args[0], st)
            return V(t if has_index(t) and nm.split(".")[-1] in ("ravel", "reshape", "transpose", "sort", "unique", "concatenate", "copy", "squeeze") else O)
        return V(O)

    def call_method(self, it, base, name, args, kwargs, node, st):
        func = it.stack[-1].func
        o = it.obj(st, base)
        if name == "write":
            self.prints.append((func, node, [self._deep(it, a, st) for a in args]))
            return V(O)
        if name == "format":
            return self.format(it, list(args) + list(kwargs.values()), node, st)
        if name == "join" and args:
            return V(self._deep(it, args[0], st) or O)
        if name == "astype":
            dn = node.args[0] if isinstance(node, ast.Call) and node.args else None
            t = self._deep(it, base, st)
            if isinstance(dn, ast.Name) and dn.id == "int" and not has_index(t):
                return V(frozenset([("T", 0)]))
            return V(t, base.ref)
        if o is not None and o.kind == "array":
            return V(base.tag, base.ref)
        if o is not None:
            return None
        if name in ("reshape", "ravel", "copy", "flatten", "tolist", "transpose", "squeeze", "get", "pop", "item"):
            return V(base.tag)
        if name in ("split", "strip", "lower", "upper", "replace", "title", "rstrip", "lstrip"):
            return V(O)
        if name == "index":
            return V(frozenset([("L", 0)]))
        return V(O if not has_index(base.tag) else base.tag)

    def intercept_call(self, it, g, args, kwargs, node, st):
        if g.qualname == "iodata.utils.set_four_index_element" and self.mode == "read":
            for i, a in enumerate(args[1:5]):
                self.sinks.append(("four-index", it.stack[-1].func, node, self._deep(it, a, st), f"index argument {i + 1} of set_four_index_element"))
            return V(O)
        return None
