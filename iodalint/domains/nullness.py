"""E8 (nullness) domain for E-core.

Tag = frozenset over {'N' (is None), 'V' (a non-None value), 'A' (absent: slot/variable not set)}.
"""

from __future__ import annotations

import ast

from ..absint import Domain, V, _NOKEY

N = frozenset("N")
VV = frozenset("V")
A = frozenset("A")
NV = frozenset("NV")
EMPTY = frozenset()

MAYBE_NONE_EXTERNALS = {"re.match", "re.search", "re.fullmatch", "builtins.next2", "os.environ.get", "shutil.which"}
MAYBE_NONE_METHODS = {"get", "match", "search", "fullmatch", "pop2"}


class NullDomain(Domain):
    name = "nullness"

    def __init__(self, prog, param_tags=None):
        self.prog = prog
        self.param_tags = param_tags or {}
        self.derefs = []  # (func, node, expr_text, tag) : dereference of a maybe-None value
        self.track_deref = None  # optional predicate on expression

    def bottom(self):
        return EMPTY

    def top(self):
        return NV

    def join(self, a, b):
        t = (a or EMPTY) | (b or EMPTY)
        if sum(1 for x in t if isinstance(x, tuple)) > 1:
            t = frozenset(x for x in t if not isinstance(x, tuple))
        return t

    def absent(self):
        return A

    def const(self, value, node):
        if value is None:
            return N
        if isinstance(value, (str, int)) and not isinstance(value, bool):
            return frozenset(["V", ("c", value)])
        return VV

    def fresh(self, kind, node):
        return VV

    def unknown(self, node):
        return VV

    def param(self, func, name, index):
        t = self.param_tags.get((func.qualname, name))
        if t is not None:
            return t
        d = func.default_of(name)
        if isinstance(d, ast.Constant) and d.value is None:
            return NV
        return VV

    def global_ref(self, resolved, node):
        return VV

    def const_of(self, it, v, st):
        cs = [x for x in v.tag if isinstance(x, tuple)]
        if len(cs) == 1 and "N" not in v.tag and "A" not in v.tag:
            return cs[0][1]
        o = it.obj(st, v)
        if o is not None and o.kind == "tuple" and o.elem is None and o.slots:
            parts = []
            for i in range(len(o.slots)):
                if i not in o.slots:
                    return _NOKEY
                c = self.const_of(it, o.slots[i], st)
                if c is _NOKEY or isinstance(c, tuple):
                    return _NOKEY
                parts.append(c)
            return tuple(parts)
        return _NOKEY

    def load_global(self, it, r, node, st):
        from ..consteval import ConstEval, NotConstant

        if not hasattr(self, "_ce"):
            self._ce = ConstEval(self.prog)
        b = r[3]
        if isinstance(b.value, (ast.List, ast.Tuple, ast.Dict, ast.Constant)) or (isinstance(b.value, ast.Call) and r[2].isupper()):
            try:
                val = self._ce.global_value(r[1], r[2])
            except NotConstant:
                return None
            if isinstance(val, (list, tuple, dict, str, int)) and not isinstance(val, bool):
                return it.heapify(val, node, st)
        return None

    def slot_maybe_absent(self, v):
        return "A" in v.tag

    def attr(self, it, base, name, node, st):
        o = it.obj(st, base)
        if o is not None and ("." + name) in o.slots:
            return o.slots["." + name]
        return V(VV)

    def subscript(self, it, base, index, const_key, node, st):
        o = it.obj(st, base)
        if o is not None:
            if const_key is not None and const_key in o.slots:
                v = o.slots[const_key]
                # a missing key raises KeyError: on the continuing path the value is present
                if "A" in v.tag:
                    nv = V((v.tag - A) or VV, v.ref)
                    if o.kind == "dict" and len(v.tag) > 1:
                        mo_ = it.mobj(st, base)
                        if mo_ is not None and const_key in mo_.slots:
                            mo_.slots[const_key] = nv  # ... and the key stays present afterwards
                    return nv
                return v
            if o.elem is not None:
                return V((o.elem.tag - A) or VV, o.elem.ref)
        return V(VV)

    def boolop_operand(self, it, op, v, is_last, st):
        """`a or b` yields a only when a is truthy (hence not None)."""
        if isinstance(op, ast.Or) and not is_last and "N" in v.tag:
            t = v.tag - N
            return V(t if (t - frozenset(x for x in t if isinstance(x, tuple))) else (t | VV), v.ref, v.const)
        return v

    def _use(self, it, v, node, how):
        if "N" in v.tag:
            self.derefs.append((it.stack[-1].func, node, v.tag, how))

    def binop(self, it, op, l, r, node, st):
        self._use(it, l, node, "arithmetic")
        self._use(it, r, node, "arithmetic")
        return V(VV)

    def unaryop(self, it, op, v, node, st):
        return V(VV)

    def compare(self, it, node, vals, st):
        return V(VV)

    def format(self, it, vals, node, st):
        return V(VV)

    def on_format_spec(self, it, fv, val, st):
        if fv.format_spec is not None:
            self._use(it, val, fv, "formatted with a format spec")

    def iter_elem(self, it, v, node, st):
        if node is not None:
            self._use(it, v, node, "iterated")
        return None

    def unpack(self, it, v, i, n, node, st):
        return V(VV)

    def call_unknown(self, it, node, args, kwargs, st):
        return V(VV)

    def call_external(self, it, nm, args, kwargs, node, st):
        if nm in ("builtins.int", "builtins.float", "builtins.len", "builtins.abs", "builtins.round", "builtins.sum", "builtins.max", "builtins.min", "builtins.sorted", "builtins.zip", "builtins.enumerate") or nm.startswith("numpy."):
            for a in args:
                self._use(it, a, node, f"passed to {nm.split('.', 1)[1]}()")
        if nm in ("attrs.evolve", "attr.evolve") and args:
            o = it.obj(st, args[0])
            if o is not None:
                slots = dict(o.slots)
                for k, v in kwargs.items():
                    if k != "**":
                        slots["." + k] = v
                return it.new(st, o.kind, node, slots=slots, meta=dict(o.meta), tag=VV)
        if nm in MAYBE_NONE_EXTERNALS:
            return V(NV)
        if nm == "builtins.next" and len(args) == 2:
            return V(self.join(VV, args[1].tag))
        if nm == "builtins.getattr" and len(args) == 3:
            return V(self.join(VV, args[2].tag))
        r = it.default_external(nm, args, kwargs, node, st)
        if r is not None:
            return r
        return V(VV)

    def call_method(self, it, base, name, args, kwargs, node, st):
        o = it.obj(st, base)
        if o is not None:
            return None
        if name == "get":
            d = args[1].tag if len(args) > 1 else N
            return V(self.join(VV, d))
        if name in ("match", "search", "fullmatch"):
            return V(NV)
        if name in ("append", "extend", "update", "sort", "reverse", "clear", "insert", "remove", "fill"):
            return V(N)
        return V(VV)

    def deref(self, it, expr, base, st):
        """`expr.attr`, `expr[...]`, `expr.method()`: on the continuing path expr is neither None nor unbound."""
        if "N" in base.tag or "A" in base.tag:
            self.derefs.append((it.stack[-1].func, expr, base.tag, "dereferenced"))
            self._narrow(it, expr, None, st, remove=frozenset("NA"))

    def on_name_load(self, it, node, v, st):
        # reading an unbound local raises: on the continuing path it is bound
        if "A" in v.tag and len(v.tag) > 1 and node.id in st.env:
            nv = V(v.tag - A, v.ref)
            st.env[node.id] = nv
            return nv
        return None

    def on_key_load(self, it, base, key, v, st):
        # reading a key that is absent raises KeyError: on the continuing path the key is present
        if "A" in v.tag and len(v.tag) > 1:
            o = it.mobj(st, base)
            if o is not None and key in o.slots:
                nv = V(v.tag - A, v.ref)
                o.slots[key] = nv
                return nv
        return None

    # refinement on `x is None`, `x is not None`, truthiness of names
    def refine(self, it, test, truth, st):
        if isinstance(test, ast.UnaryOp) and isinstance(test.op, ast.Not):
            return self.refine(it, test.operand, not truth, st)
        if isinstance(test, ast.BoolOp):
            if (isinstance(test.op, ast.And) and truth) or (isinstance(test.op, ast.Or) and not truth):
                for v in test.values:
                    self.refine(it, v, truth, st)
            return
        if isinstance(test, ast.Compare) and len(test.ops) == 1:
            l, op, r = test.left, test.ops[0], test.comparators[0]
            if isinstance(r, ast.Constant) and r.value is None and isinstance(op, (ast.Is, ast.IsNot, ast.Eq, ast.NotEq)):
                is_none = isinstance(op, (ast.Is, ast.Eq)) == truth
                self._narrow(it, l, N if is_none else None, st, remove=None if is_none else N)
                return
            # "key" in d
            if isinstance(op, (ast.In, ast.NotIn)):
                # the key may be a literal or a name bound to a constant (a loop over a constant table)
                key = l.value if isinstance(l, ast.Constant) else it.const_key(l, st)
                if key is _NOKEY:
                    return
                present = isinstance(op, ast.In) == truth
                base = it.eval(r, st) if isinstance(r, (ast.Name,)) else None
                o = it.mobj(st, base) if base is not None else None
                if o is not None and key in o.slots:
                    v = o.slots[key]
                    if present:
                        o.slots[key] = V((v.tag - A) or VV, v.ref)
                    elif "A" in v.tag:
                        o.slots[key] = V(A)
                return
        if isinstance(test, ast.Name):
            # truthy => not None (falsy says nothing)
            if truth:
                self._narrow(it, test, None, st, remove=N)

    def _narrow(self, it, expr, to, st, remove):
        if isinstance(expr, ast.Name) and expr.id in st.env:
            v = st.env[expr.id]
            t = (v.tag & to) if to is not None else (v.tag - remove)
            if not t:
                t = to if to is not None else VV
            st.env[expr.id] = V(t, v.ref if "V" in t else None)
        elif isinstance(expr, ast.Subscript):
            base = it.eval(expr.value, st)
            o = it.mobj(st, base)
            key = it.const_key(expr.slice, st)
            if o is not None and key is not _NOKEY and key in o.slots:
                v = o.slots[key]
                t = (v.tag & to) if to is not None else (v.tag - remove)
                if t:
                    o.slots[key] = V(t, v.ref)
        elif isinstance(expr, ast.Attribute):
            base = it.eval(expr.value, st)
            o = it.mobj(st, base)
            k = "." + expr.attr
            if o is not None and k in o.slots:
                v = o.slots[k]
                t = (v.tag & to) if to is not None else (v.tag - remove)
                if t:
                    o.slots[k] = V(t, v.ref)
