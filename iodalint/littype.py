"""Which parameters / locals hold the LineIterator (decided by dataflow + annotations)."""

from __future__ import annotations

import ast

from .astutil import bind_call
from .model import Func, Program


def lit_locals(prog: Program):
    """Return dict func.qualname -> set of local names that hold a LineIterator."""
    prog.build_callgraph()
    lit_cls = prog.classes.get("iodata.utils.LineIterator")
    names: dict[str, set] = {f.qualname: set() for f in prog.funcs.values()}
    # seeds: `with LineIterator(..) as X` and annotated parameters
    for f in prog.funcs.values():
        for n in f.own_nodes():
            if isinstance(n, ast.With):
                for it in n.items:
                    ce = it.context_expr
                    if isinstance(ce, ast.Call) and isinstance(it.optional_vars, ast.Name):
                        r = prog.resolve_expr(f, f.module, ce.func)
                        if r and r[0] == "class" and r[1] is lit_cls:
                            names[f.qualname].add(it.optional_vars.id)
        node = f.node
        if hasattr(node, "args") and isinstance(node, (ast.FunctionDef, ast.AsyncFunctionDef)):
            for a in node.args.posonlyargs + node.args.args + node.args.kwonlyargs:
                ann = a.annotation
                if ann is not None and any(isinstance(x, ast.Name) and x.id == "LineIterator" for x in ast.walk(ann)):
                    # Union[str, LineIterator] style annotations are not lit-only
                    if isinstance(ann, ast.Name):
                        names[f.qualname].add(a.arg)
    changed = True
    while changed:
        changed = False
        for f in prog.funcs.values():
            mine = set(names[f.qualname])
            # closures see their parents' lit locals
            p = f.parent
            while p is not None:
                mine |= names[p.qualname]
                p = p.parent
            if not mine:
                continue
            for cs in f.calls:
                for g in cs.callees:
                    if cs.cls is not None:
                        continue
                    bound, extra, ok = bind_call(cs.node, g)
                    for pname, e in bound.items():
                        if isinstance(e, ast.Name) and e.id in mine and not pname.startswith("*"):
                            if pname not in names[g.qualname]:
                                names[g.qualname].add(pname)
                                changed = True
    return names


def propagate_names(prog: Program, seeds: dict):
    """Generic forward propagation of a value class through call bindings.

    ``seeds``: func.qualname -> set of local names holding a value of the class.
    A name passed (as a bare Name) to a package function marks the bound parameter.
    Closures see their parents' names.
    """
    prog.build_callgraph()
    names = {f.qualname: set(seeds.get(f.qualname, ())) for f in prog.funcs.values()}
    changed = True
    while changed:
        changed = False
        for f in prog.funcs.values():
            mine = set(names[f.qualname])
            p = f.parent
            while p is not None:
                mine |= names[p.qualname]
                p = p.parent
            if not mine:
                continue
            for cs in f.calls:
                if cs.cls is not None:
                    continue
                for g in cs.callees:
                    bound, extra, ok = bind_call(cs.node, g)
                    for pname, e in bound.items():
                        if isinstance(e, ast.Name) and e.id in mine and not pname.startswith("*"):
                            if pname not in names[g.qualname]:
                                names[g.qualname].add(pname)
                                changed = True
    return names
