"""Schema model of the attrs data classes (fields, annotations, validators, properties)."""

from __future__ import annotations

import ast

from .model import Program

DATA_CLASSES = ("iodata.iodata.IOData", "iodata.orbitals.MolecularOrbitals", "iodata.basis.Shell", "iodata.basis.MolecularBasis", "iodata.utils.Cube")
SCALAR_TYPES = {"float", "int", "str", "bool"}


def _ann_is_scalar(ann) -> bool:
    if ann is None:
        return False
    if isinstance(ann, ast.Name):
        return ann.id in SCALAR_TYPES
    if isinstance(ann, ast.Subscript) and isinstance(ann.value, ast.Name) and ann.value.id == "Optional":
        return _ann_is_scalar(ann.slice)
    if isinstance(ann, ast.Constant) and ann.value is None:
        return True
    return False


def _ann_is_dict(ann) -> bool:
    if isinstance(ann, ast.Name):
        return ann.id == "dict"
    if isinstance(ann, ast.Subscript) and isinstance(ann.value, ast.Name):
        if ann.value.id == "dict":
            return True
        if ann.value.id == "Optional":
            return _ann_is_dict(ann.slice)
    return False


def class_schema(prog: Program, qual):
    ci = prog.cls(qual)
    fields = {}
    for name, st in ci.fields.items():
        if isinstance(st, ast.AnnAssign):
            pub = name.lstrip("_")
            fields[pub] = {
                "private": name.startswith("_"),
                "scalar": _ann_is_scalar(st.annotation),
                "dict": _ann_is_dict(st.annotation),
                "array": any(isinstance(x, ast.Name) and x.id == "NDArray" for x in ast.walk(st.annotation)),
                "stmt": st,
                "has_default": isinstance(st.value, ast.Call) and any(k.arg in ("default", "factory") for k in st.value.keywords),
            }
    props = {}
    for name, g in ci.getters.items():
        props[name] = {"scalar": _ann_is_scalar(g.node.returns), "getter": g, "setter": ci.setters.get(name)}
    return ci, fields, props


def scalar_attr_names(prog: Program) -> set:
    """Attribute names that are scalar in every data class defining them."""
    scalar, nonscalar = set(), set()
    for q in DATA_CLASSES:
        if q not in prog.classes:
            continue
        ci, fields, props = class_schema(prog, q)
        for n, f in fields.items():
            (scalar if f["scalar"] else nonscalar).add(n)
        for n, p in props.items():
            if n in fields:
                continue
            (scalar if p["scalar"] else nonscalar).add(n)
    return scalar - nonscalar


def iodata_attr_names(prog: Program):
    """(constructor argument names, all public attribute/property names) of IOData."""
    ci, fields, props = class_schema(prog, "iodata.iodata.IOData")
    ctor = set(fields)
    return ctor, ctor | set(props)


def dict_attr_names(prog: Program):
    ci, fields, props = class_schema(prog, "iodata.iodata.IOData")
    return {n for n, f in fields.items() if f["dict"]}
