"""iodalint: repository-specific static analysis of theochem/iodata.

Only the standard library is used.  Nothing under /repo is imported or run.
"""

__all__ = ["AnalysisError"]


class AnalysisError(Exception):
    """The analyser cannot decide (fail closed: exit 2, never a silent pass)."""
