"""Findings, obligations, known-findings matching, evidence and replay files."""

from __future__ import annotations

import ast
import hashlib
import json
import os
import time
from dataclasses import dataclass, field
from typing import Optional

from . import AnalysisError
from .model import Func, Program, norm_construct, src_of

VERIF = os.path.dirname(os.path.dirname(os.path.abspath(__file__)))


@dataclass
class Finding:
    prop: str
    rule: str
    relpath: str
    function: str
    construct: str
    message: str
    line: int = 0
    witness: list = field(default_factory=list)
    entry: str = ""

    @property
    def key(self):
        return (self.prop, self.rule, self.function, self.construct)

    def to_json(self):
        return {
            "property": self.prop,
            "rule": self.rule,
            "file": self.relpath,
            "line": self.line,
            "function": self.function,
            "construct": self.construct,
            "message": self.message,
            "witness": self.witness,
            "entry": self.entry,
        }

    def text(self):
        return f"{self.relpath}:{self.line} [{self.prop}-{self.rule}] {self.function}: {self.message} :: {self.construct}"


class Context:
    """Collects what a property check analysed and what it found."""

    def __init__(self, prog: Program, prop: str, tier: str = "quick"):
        self.prog = prog
        self.prop = prop
        self.tier = tier
        self.findings: list[Finding] = []
        self.notes: list[str] = []
        self.rules: dict[str, dict] = {}
        self.samples: list = []
        self.clauses_decided: list[str] = []
        self.clauses_declined: list[str] = []
        self.assumptions: list[str] = []
        self.extra: dict = {}
        self._distinct: set = set()

    # ---- bookkeeping
    def rule(self, rid: str, title: str, witness: str = ""):
        r = self.rules.setdefault(
            rid, {"title": title, "witness": witness, "obligations": 0, "discharged": 0, "instances": []}
        )
        return r

    def ok(self, rid: str, what: str, where: str = "", nontrivial: bool = True, sample: bool = True):
        """Record one discharged obligation (rule instance that holds)."""
        r = self.rules[rid]
        r["obligations"] += 1
        r["discharged"] += 1
        if nontrivial:
            self._distinct.add((rid, where, what))
        if sample and len(r["instances"]) < 6:
            r["instances"].append({"where": where, "fact": what})

    def violate(
        self,
        rid: str,
        message: str,
        func: Optional[Func] = None,
        node=None,
        relpath: str = "",
        construct: str = "",
        witness=None,
        entry: str = "",
        function: str = "",
    ):
        r = self.rules[rid]
        r["obligations"] += 1
        line = getattr(node, "lineno", 0) if node is not None else 0
        if func is not None:
            relpath = relpath or func.module.relpath
            function = function or func.qualname
        if node is not None and not construct:
            construct = norm_construct(node, func) if isinstance(node, ast.AST) else str(node)
        construct = " ".join(construct.split())
        if len(construct) > 300:
            construct = construct[:300]
        fd = Finding(self.prop, rid, relpath, function, construct, message, line, witness or [], entry)
        self._distinct.add((rid, f"{relpath}:{function}", construct))
        # de-duplicate identical keys (same construct twice in one function)
        if any(x.key == fd.key for x in self.findings):
            return fd
        self.findings.append(fd)
        return fd

    def note(self, text: str):
        self.notes.append(text)

    def borrow(self, module_name: str, mapping: dict):
        """Run another property's rule module on a shadow context and adopt selected rules under new ids.

        Used when one structural clause is a necessary condition of two properties: the rule lives in one module, both
        properties claim (and report) it.  An analysis failure of the *other* rules of that module does not concern this
        property: it is recorded as a note (that property's own check fails closed on it)."""
        import importlib

        mod = importlib.import_module(f"iodalint.rules.{module_name}")
        sub = Context(self.prog, self.prop, self.tier)
        try:
            mod.run(sub)
        except AnalysisError as exc:
            if not all(old in sub.rules and sub.rules[old]["obligations"] for old in mapping):
                raise AnalysisError(f"rules {sorted(mapping)} borrowed from {module_name} could not be decided: {exc}") from exc
            self.note(f"borrowed rules {sorted(mapping)} of {module_name}: a later rule of that module failed ({exc}); the borrowed rules had been decided")
        for old, new in mapping.items():
            r = sub.rules.get(old)
            if r is None:
                raise AnalysisError(f"{module_name} has no rule {old} any more")
            mine = self.rule(new, r["title"], r["witness"])
            mine["obligations"] += r["discharged"]
            mine["discharged"] += r["discharged"]
            mine["instances"].extend(r["instances"][: max(0, 6 - len(mine["instances"]))])
            for fl in r.get("floors", []):
                mine.setdefault("floors", []).append(fl)
            for fd in sub.findings:
                if fd.rule == old:
                    mine["obligations"] += 1
                    nf = Finding(self.prop, new, fd.relpath, fd.function, fd.construct, fd.message, fd.line, fd.witness, fd.entry)
                    if not any(x.key == nf.key for x in self.findings):
                        self.findings.append(nf)
            self._distinct |= {(new, w, c) for (rid, w, c) in sub._distinct if rid == old}

    def floor(self, rid: str, count: int, minimum: int, what: str):
        """Fail closed when a rule matches fewer instances than confirmed by hand."""
        self.rules[rid].setdefault("floors", []).append({"what": what, "count": count, "min": minimum})
        if count < minimum and not any(f.rule == rid for f in self.findings):
            raise AnalysisError(
                f"{self.prop}-{rid}: only {count} {what} found, expected at least {minimum} "
                "(anchor vanished or idiom not recognised)"
            )

    @property
    def obligations(self):
        return sum(r["obligations"] for r in self.rules.values())

    @property
    def discharged(self):
        return sum(r["discharged"] for r in self.rules.values())


def load_known():
    path = os.path.join(VERIF, "known_findings.json")
    if not os.path.exists(path):
        return {"findings": [], "fixed": []}
    with open(path) as fh:
        return json.load(fh)


def match_known(fd: Finding, known):
    for k in known.get("findings", []):
        if (
            k.get("property") == fd.prop
            and k.get("rule") == fd.rule
            and k.get("function") == fd.function
            and " ".join(k.get("construct", "").split()) == fd.construct
        ):
            return k
    return None


def write_replay(fd: Finding, outdir=None):
    outdir = outdir or os.path.join(VERIF, "out", fd.prop)
    os.makedirs(outdir, exist_ok=True)
    h = hashlib.sha1(repr(fd.key).encode()).hexdigest()[:12]
    path = os.path.join(outdir, f"{fd.rule}-{h}.json")
    with open(path, "w") as fh:
        json.dump(fd.to_json(), fh, indent=1)
    return path


def finish(ctx: Context, t0: float, level: str, explanation: str, trusted_base, checker_cmd: str,
           seed: int = 0, write=True, evidence_dir=None):
    """Print the report, write evidence, return the exit code (0 or 1)."""
    known = load_known()
    new, old = [], []
    for fd in ctx.findings:
        k = match_known(fd, known)
        if k is not None:
            old.append((fd, k))
        else:
            new.append(fd)
    prog = ctx.prog
    res, tot = prog.call_stats()
    for rid, r in sorted(ctx.rules.items()):
        print(f"  {ctx.prop}-{rid}: {r['title']}: {r['discharged']}/{r['obligations']} instances hold")
    for n in ctx.notes:
        print(f"  note: {n}")
    for fd, k in old:
        print(f"KNOWN-FINDING: property={ctx.prop} {fd.rule} {fd.function} :: {fd.construct} -- {k.get('what', fd.message)}")
    replay_paths = []
    for fd in new:
        path = write_replay(fd)
        replay_paths.append(path)
        print(f"  {fd.text()}")
        for w in fd.witness[:8]:
            print(f"      via {w}")
        print(f"VIOLATION property={ctx.prop} replay={path}")
    samples = []
    for rid, r in sorted(ctx.rules.items()):
        for inst in r["instances"][:3]:
            samples.append({"rule": f"{ctx.prop}-{rid}", **inst})
    samples.extend(ctx.samples[:10])
    if not samples:
        samples = [{"rule": rid, "title": r["title"]} for rid, r in ctx.rules.items()]
    wall = time.time() - t0
    ev = {
        "property_id": ctx.prop,
        "tier": ctx.tier,
        "seed": seed,
        "level": level,
        "coverage": {
            "explanation": explanation,
            "obligations": ctx.obligations,
            "discharged": ctx.discharged,
            "evaluations": max(ctx.obligations, 1),
            "distinct_nontrivial": len(ctx._distinct),
            "rule": "one evaluation per rule instance (call site, table entry, CFG path obligation, "
            "abstract state) found in the current source; distinct = different (rule, location, "
            "construct); non-trivial = the instance has a resolved program fact to decide "
            "(not vacuous)",
            "samples": samples[:24],
            "checker_cmd": checker_cmd,
            "trusted_base": list(trusted_base),
            "exhaustive": True,
            "clauses_decided": ctx.clauses_decided,
            "clauses_declined": ctx.clauses_declined,
            "per_rule": {
                rid: {k: v for k, v in r.items() if k != "instances"} for rid, r in sorted(ctx.rules.items())
            },
            "modules_analysed": len(prog.modules),
            "functions_analysed": len(prog.funcs),
            "callsites_resolved": res,
            "callsites_total": tot,
            "source_digest": prog.digest,
            "known_findings": [fd.to_json() for fd, _ in old],
            "new_violations": [fd.to_json() for fd in new],
            **ctx.extra,
        },
        "assumptions": ctx.assumptions,
        "wall_s": round(wall, 3),
        "violations": len(new),
    }
    if write:
        evidence_dir = evidence_dir or os.path.join(VERIF, "evidence")
        os.makedirs(evidence_dir, exist_ok=True)
        with open(os.path.join(evidence_dir, f"{ctx.prop}.json"), "w") as fh:
            json.dump(ev, fh, indent=1, default=str)
    print(
        f"{ctx.prop}: {ctx.discharged}/{ctx.obligations} obligations discharged, "
        f"{len(old)} known finding(s), {len(new)} new violation(s), {wall:.2f}s"
    )
    return 1 if new else 0
