"""Command line: ./check <ID> [--tier quick|thorough] [--replay path] [--repo dir]."""

from __future__ import annotations

import argparse
import importlib
import json
import os
import sys
import time
import traceback

from . import AnalysisError
from .model import Program
from .report import Context, finish


def run_property(prop: str, tier: str, repo: str, overlay=None, write=True, quiet=False):
    """Run one property's rules.  Returns (exit_code, ctx)."""
    t0 = time.time()
    mod = importlib.import_module(f"iodalint.rules.{prop.lower()}")
    prog = Program(repo, overlay=overlay)
    prog.build_callgraph()
    ctx = Context(prog, prop, tier)
    try:
        mod.run(ctx)
    except AnalysisError as exc:
        # an anchor or instance floor that vanished *because of* a construct a rule has already reported: the finding
        # stands (exit 1); without any new finding the run is analysis-broken (exit 2, fail closed)
        from .report import load_known, match_known

        known = load_known()
        if not any(match_known(f, known) is None for f in ctx.findings):
            raise
        ctx.note(f"analysis stopped early after the reported violation(s): {exc}")
    if quiet:
        return ctx
    bcode = 0
    if tier == "thorough" and overlay is None:
        from . import battery

        bcode, summary = battery.run(prop, repo, ctx)
        ctx.extra["sensitivity_battery"] = summary
        ctx.samples.extend({"battery_edit": d["name"], "status": d["status"], "rules": d["rules"]} for d in summary["details"][:6])
    cmd = f"./check {prop} --tier {tier}"
    code = finish(
        ctx, t0, getattr(mod, "LEVEL", "other"), mod.EXPLANATION, mod.TRUSTED, cmd,
        seed=int(os.environ.get("VERIF_SEED", "0") or 0), write=write,
    )
    if bcode and not code:
        print(f"ANALYSIS-ERROR property={prop}: sensitivity battery failed (a rule did not fire on its seeded edit, or a twin fired)")
        code = 2
    return code, ctx


def main(argv=None):
    ap = argparse.ArgumentParser(prog="check")
    ap.add_argument("prop")
    ap.add_argument("--tier", default=os.environ.get("VERIF_TIER") or "quick", choices=["quick", "thorough"])
    ap.add_argument("--replay")
    ap.add_argument("--repo", default=os.environ.get("IODALINT_REPO", "/repo"))
    ap.add_argument("--no-evidence", action="store_true")
    args = ap.parse_args(argv)
    prop = args.prop.upper()
    try:
        if args.replay:
            with open(args.replay) as fh:
                want = json.load(fh)
            ctx = run_property(prop, "quick", args.repo, quiet=True)
            hit = [
                fd for fd in ctx.findings
                if fd.rule == want["rule"] and fd.function == want["function"] and fd.construct == want["construct"]
            ]
            if hit:
                print(hit[0].text())
                print(f"VIOLATION property={prop} replay={args.replay}")
                return 1
            print(f"replay: {want['rule']} {want['function']} no longer fires on the current tree")
            return 0
        code, ctx = run_property(prop, args.tier, args.repo, write=not args.no_evidence)
        return code
    except AnalysisError as exc:
        print(f"ANALYSIS-ERROR property={prop}: {exc}")
        return 2
    except Exception:  # tool bug: never looks like a violation
        print(f"ANALYSIS-ERROR property={prop}: internal error")
        traceback.print_exc()
        return 2


if __name__ == "__main__":
    sys.exit(main())
