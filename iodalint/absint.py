"""E-core -- one syntax-directed, flow-sensitive abstract interpreter with pluggable domains.

Values are pairs (tag, ref): `tag` is the domain's payload, `ref` is the address of
a heap object (container / object with constant-key slots and a summary element)
or None for scalars.  The store (address -> heap object) is threaded through the
walk, copied at branches and joined afterwards, so aliasing is exact and updates
are flow-sensitive.  Calls to package functions are analysed in the caller's
store (bounded depth, recursion guarded), so side effects on arguments are seen.
"""

from __future__ import annotations

import ast
from typing import Optional

from . import AnalysisError
from .model import CallSite, Func, Program

MAX_DEPTH = 7
LOOP_ROUNDS = 3


class _NoConst:
    def __repr__(self):
        return "<noconst>"


NOCONST = _NoConst()


class V(tuple):
    """(tag, ref, const): domain tag, heap address or None, known constant value or NOCONST."""

    __slots__ = ()

    def __new__(cls, tag, ref=None, const=NOCONST):
        return tuple.__new__(cls, (tag, ref, const))

    @property
    def tag(self):
        return self[0]

    @property
    def ref(self):
        return self[1]

    @property
    def const(self):
        return self[2]


class Obj:
    __slots__ = ("kind", "slots", "elem", "meta")

    def __init__(self, kind, slots=None, elem=None, meta=None):
        self.kind = kind
        self.slots = slots if slots is not None else {}
        self.elem = elem
        self.meta = meta if meta is not None else {}

    def copy(self):
        return Obj(self.kind, dict(self.slots), self.elem, self.meta)


class State:
    """env (name -> V) for the current frame + the shared store (copy-on-write)."""

    __slots__ = ("env", "store", "dead", "owned")

    def __init__(self, env=None, store=None):
        self.env = env if env is not None else {}
        self.store = store if store is not None else {}
        self.dead = False
        self.owned = set(self.store)

    def copy(self):
        s = State(dict(self.env), dict(self.store))
        s.owned = set()
        self.owned = set()  # objects are now shared: both sides must copy before writing
        s.dead = self.dead
        return s

    def mut(self, addr):
        """Heap object at addr, private to this state (copied on first write)."""
        o = self.store.get(addr)
        if o is None:
            return None
        if addr not in self.owned:
            o = o.copy()
            self.store[addr] = o
            self.owned.add(addr)
        return o

    def put(self, addr, obj):
        self.store[addr] = obj
        self.owned.add(addr)


class Domain:
    """Base class: override what the analysis needs."""

    name = "base"

    # ---- lattice
    def bottom(self):
        return None

    def top(self):
        return "T"

    def join(self, a, b):
        if a == b:
            return a
        if a is None:
            return b
        if b is None:
            return a
        return self.top()

    def absent(self):
        """Tag of a slot that does not exist on some path."""
        return self.bottom()

    # ---- sources
    def const(self, value, node):
        return self.bottom()

    def param(self, func: Func, name: str, index: int):
        return self.top()

    def global_ref(self, resolved, node):
        return self.top()

    def fresh(self, kind, node):
        return self.bottom()

    def unknown(self, node):
        return self.top()

    # ---- transfer
    def attr(self, it, base: V, name: str, node, st: State) -> Optional[V]:
        return None

    def subscript(self, it, base: V, index: V, const_key, node, st: State) -> Optional[V]:
        return None

    def binop(self, it, op, l: V, r: V, node, st) -> V:
        return V(self.join(l.tag, r.tag))

    def unaryop(self, it, op, v: V, node, st) -> V:
        return V(v.tag)

    def compare(self, it, node, vals, st) -> V:
        return V(self.bottom())

    def call_external(self, it, dotted: str, args, kwargs, node, st) -> Optional[V]:
        return None

    def call_method(self, it, base: V, name: str, args, kwargs, node, st) -> Optional[V]:
        return None

    def call_unknown(self, it, node, args, kwargs, st) -> V:
        return V(self.unknown(node))

    def format(self, it, vals, node, st) -> V:
        t = self.bottom()
        for v in vals:
            t = self.join(t, v.tag)
        return V(t)

    def iter_elem(self, it, v: V, node, st) -> Optional[V]:
        return None

    # ---- hooks (sinks)
    def on_store(self, it, kind, base: V, key, value: V, node, st):
        pass

    def on_call(self, it, cs: Optional[CallSite], callee_desc, args, kwargs, node, st):
        pass

    def on_return(self, it, func: Func, value: V, node, st):
        pass

    def on_stmt(self, it, func: Func, stmt, st):
        pass

    def enter_function(self, it, func: Func, st):
        pass


class _Frame:
    __slots__ = ("func", "returns", "yields", "ret_states", "loops", "try_acc", "parent_env", "depth", "callnode")

    def __init__(self, func, depth, parent_env=None, callnode=None):
        self.func = func
        self.callnode = callnode
        self.returns = []
        self.yields = []
        self.ret_states = []
        self.loops = []
        self.try_acc = []
        self.parent_env = parent_env
        self.depth = depth


def _ordered_keys(da, db):
    """Union of the keys of two dicts in an order that does not depend on the hash seed: keys of the first dict in
    insertion order, then the remaining keys of the second."""
    out = list(da)
    seen = set(da)
    out.extend(k for k in db if k not in seen)
    return out


class Interp:
    def __init__(self, prog: Program, domain: Domain, max_depth=MAX_DEPTH, inline_filter=None):
        self.prog = prog
        self.d = domain
        prog.build_callgraph()
        self.callsite_of: dict[int, CallSite] = {}
        for f in list(prog.funcs.values()) + [m.toplevel for m in prog.modules.values()]:
            for cs in f.calls:
                self.callsite_of[id(cs.node)] = cs
        self.stack: list[_Frame] = []
        self.max_depth = max_depth
        self.inline_filter = inline_filter
        self.alloc_count = 0
        self.steps = 0
        self.closures: dict[int, dict] = {}
        self.warnings = []
        self.iter_ctx = []  # indices of the enclosing unrolled loop iterations (part of allocation addresses)

    # ------------------------------------------------------------------ heap
    def alloc(self, st: State, kind, node, slots=None, elem=None, meta=None) -> int:
        ctx = tuple((id(fr.func), id(fr.callnode)) for fr in self.stack[-3:]) + tuple(self.iter_ctx)
        addr = (id(node), ctx, kind)
        st.put(addr, Obj(kind, slots or {}, elem, meta))
        return addr

    def obj(self, st: State, v: V) -> Optional[Obj]:
        """Read-only view of the heap object of v (do not mutate: use mobj)."""
        if v is None or v.ref is None:
            return None
        return st.store.get(v.ref)

    def mobj(self, st: State, v: V) -> Optional[Obj]:
        """Heap object of v, private to st (copy-on-write)."""
        if v is None or v.ref is None:
            return None
        return st.mut(v.ref)

    def new(self, st, kind, node, slots=None, elem=None, meta=None, tag=None) -> V:
        a = self.alloc(st, kind, node, slots, elem, meta)
        return V(self.d.fresh(kind, node) if tag is None else tag, a)

    # ------------------------------------------------------------------ join
    def join_v(self, a: Optional[V], b: Optional[V], st_out: State, sa: State = None, sb: State = None) -> V:
        if a is None:
            a = V(self.d.absent())
        if b is None:
            b = V(self.d.absent())
        if a == b:
            return a
        tag = self.d.join(a.tag, b.tag)
        if a.ref == b.ref:
            return V(tag, a.ref, a.const if a.const == b.const and type(a.const) is type(b.const) else NOCONST)
        if a.ref is None or b.ref is None:
            # scalar joined with container: keep the container (its slots become maybe-absent via tag)
            return V(tag, a.ref if a.ref is not None else b.ref)
        # two different objects: merge into a summary object at a derived address
        oa, ob = st_out.store.get(a.ref), st_out.store.get(b.ref)
        if oa is None or ob is None:
            return V(tag, a.ref if oa is not None else b.ref)
        def bases(r):
            return r[1] if isinstance(r, tuple) and len(r) == 2 and r[0] == "join" else frozenset([r])

        addr = ("join", bases(a.ref) | bases(b.ref))
        if addr == a.ref or addr == b.ref:
            keep = a.ref if addr == a.ref else b.ref
            other = ob if keep == a.ref else oa
            st_out.put(keep, self.join_obj(st_out.store[keep], other, st_out))
            return V(tag, keep)
        if addr not in st_out.store:
            st_out.put(addr, Obj("unknown"))  # placeholder against cycles
            st_out.put(addr, self.join_obj(oa, ob, st_out))
        else:
            st_out.put(addr, self.join_obj(st_out.store[addr], self.join_obj(oa, ob, st_out), st_out))
        return V(tag, addr)

    def join_obj(self, oa: Obj, ob: Obj, st_out: State) -> Obj:
        slots = {}
        for k in _ordered_keys(oa.slots, ob.slots):
            slots[k] = self.join_v(oa.slots.get(k), ob.slots.get(k), st_out)
        if oa.elem is None:
            elem = ob.elem
        elif ob.elem is None:
            elem = oa.elem
        else:
            elem = self.join_v(oa.elem, ob.elem, st_out)
        meta = oa.meta if oa.meta == ob.meta else {**ob.meta, **oa.meta}
        return Obj(oa.kind if oa.kind == ob.kind else "unknown", slots, elem, meta)

    def join_states(self, a: Optional[State], b: Optional[State]) -> Optional[State]:
        if a is None or a.dead:
            return b
        if b is None or b.dead:
            return a
        out = State({}, {})
        a.owned = set()
        b.owned = set()
        todo = []
        for addr, oa in a.store.items():
            ob = b.store.get(addr)
            if ob is None or ob is oa:
                out.store[addr] = oa  # shared, not owned
            else:
                out.store[addr] = oa
                todo.append(addr)
        for addr, ob in b.store.items():
            if addr not in a.store:
                out.store[addr] = ob
        for addr in todo:
            out.put(addr, self.join_obj(a.store[addr], b.store[addr], out))
        for k in _ordered_keys(a.env, b.env):
            out.env[k] = self.join_v(a.env.get(k), b.env.get(k), out)
        return out

    def states_equal(self, a: State, b: State) -> bool:
        if a.env != b.env:
            return False
        if a.store.keys() != b.store.keys():
            return False
        for k, oa in a.store.items():
            ob = b.store[k]
            if oa is ob:
                continue
            if oa.kind != ob.kind or oa.slots != ob.slots or oa.elem != ob.elem:
                return False
        return True

    # -------------------------------------------------------------- functions
    def run_function(self, func: Func, args: dict, st: State = None, parent_env=None, callnode=None) -> tuple:
        """Analyse `func` with parameter bindings `args` (name -> V).  Returns (ret V, state)."""
        st = st if st is not None else State()
        if len(self.stack) >= self.max_depth or any(fr.func is func for fr in self.stack):
            return V(self.d.unknown(func.node)), st
        caller_env = st.env
        env = {}
        for i, p in enumerate(func.params):
            if p in args:
                env[p] = args[p]
            else:
                dflt = func.default_of(p)
                if dflt is not None and isinstance(dflt, ast.Constant):
                    env[p] = V(self.d.const(dflt.value, dflt))
                elif p == func.vararg:
                    env[p] = self.new(st, "tuple", func.node)
                elif p == func.kwarg:
                    env[p] = self.new(st, "dict", func.node)
                else:
                    env[p] = V(self.d.param(func, p, i))
        st.env = env
        fr = _Frame(func, len(self.stack), parent_env if parent_env is not None else self.closures.get(id(func)), callnode)
        self.stack.append(fr)
        self.d.enter_function(self, func, st)
        try:
            end = self.block(func.body, st)
        finally:
            self.stack.pop()
        # fall-through end: implicit `return None`
        outs = list(fr.ret_states)
        rets = list(fr.returns)
        if end is not None and not end.dead:
            outs.append(end)
            if not func.is_generator:
                rets.append(V(self.d.const(None, func.node)))
        final = None
        for s in outs:
            final = self.join_states(final, s)
        if final is None:
            final = st
            final.dead = True
        if func.is_generator:
            elem = None
            for y in fr.yields:
                elem = y if elem is None else self.join_v(elem, y, final)
            ret = self.new(final, "list", func.node, elem=elem if elem is not None else V(self.d.bottom()), meta={"generator": func.qualname})
        else:
            ret = None
            for r in rets:
                ret = r if ret is None else self.join_v(ret, r, final)
            if ret is None:
                ret = V(self.d.bottom())
        final.env = caller_env
        return ret, final

    # ------------------------------------------------------------- statements
    def block(self, stmts, st: State) -> State:
        for s in stmts:
            if st.dead:
                break
            st = self.stmt(s, st)
        return st

    def _note_exc(self, st: State):
        fr = self.stack[-1]
        if fr.try_acc:
            fr.try_acc[-1][0] = self.join_states(fr.try_acc[-1][0], st.copy())

    def stmt(self, s, st: State) -> State:
        self.steps += 1
        if self.steps > 2_000_000:
            raise AnalysisError("abstract interpretation budget exceeded")
        fr = self.stack[-1]
        if fr.try_acc:
            self._note_exc(st)
        self.d.on_stmt(self, fr.func, s, st)
        m = getattr(self, "s_" + type(s).__name__, None)
        if m is None:
            raise AnalysisError(f"statement kind {type(s).__name__} not modelled by the abstract interpreter ({fr.func.qualname})")
        return m(s, st)

    def s_Expr(self, s, st):
        if isinstance(s.value, ast.Constant):
            return st
        self.eval(s.value, st)
        return st

    def s_Pass(self, s, st):
        return st

    def s_Import(self, s, st):
        return st

    s_ImportFrom = s_Global = s_Nonlocal = s_Import

    def s_Assert(self, s, st):
        self.eval(s.test, st)
        return st

    def s_Delete(self, s, st):
        for t in s.targets:
            if isinstance(t, ast.Subscript):
                base = self.eval(t.value, st)
                key = self.const_key(t.slice, st)
                self.d.on_store(self, "del", base, key, V(self.d.bottom()), s, st)
                o = self.mobj(st, base)
                if o is not None and key is not _NOKEY and key in o.slots:
                    del o.slots[key]
            elif isinstance(t, ast.Name):
                st.env.pop(t.id, None)
            elif isinstance(t, ast.Attribute):
                base = self.eval(t.value, st)
                self.d.on_store(self, "delattr", base, t.attr, V(self.d.bottom()), s, st)
        return st

    def s_FunctionDef(self, s, st):
        f = self.prog.func_of_node.get(id(s))
        if f is not None:
            self.closures[id(f)] = st.env
            st.env[s.name] = self.new(st, "func", s, meta={"func": f})
        return st

    s_AsyncFunctionDef = s_FunctionDef

    def s_ClassDef(self, s, st):
        return st

    def s_Assign(self, s, st):
        v = self.eval(s.value, st)
        for t in s.targets:
            self.assign(t, v, st, s)
        return st

    def s_AnnAssign(self, s, st):
        if s.value is not None:
            self.assign(s.target, self.eval(s.value, st), st, s)
        return st

    def s_AugAssign(self, s, st):
        t = s.target
        if isinstance(t, ast.Subscript) and ((isinstance(t.slice, ast.Slice) and t.slice.lower is None and t.slice.upper is None and t.slice.step is None) or (isinstance(t.slice, ast.Constant) and t.slice.value is Ellipsis)):
            # x[:] op= y is an in-place update of the whole array x
            cur = self.eval(t.value, st)
            rhs = self.eval(s.value, st)
            self.d.on_store(self, "subscript", cur, None, rhs, s, st)
            res = self.d.binop(self, s.op, cur, rhs, s, st)
            self.rebind(t.value, V(res.tag, cur.ref if res.ref is None else res.ref), st)
            return st
        cur = self.eval(s.target, st)
        rhs = self.eval(s.value, st)
        self.d.on_store(self, "aug", cur, None, rhs, s, st)
        res = self.d.binop(self, s.op, cur, rhs, s, st)
        # in-place for containers: keep identity
        if cur.ref is not None:
            o = self.mobj(st, cur)
            if o is not None and isinstance(s.op, ast.Add) and o.kind == "list":
                ro = self.obj(st, rhs)
                if ro is not None and ro.elem is not None:
                    o.elem = ro.elem if o.elem is None else self.join_v(o.elem, ro.elem, st)
                for k, vv in (ro.slots.items() if ro is not None else []):
                    o.elem = vv if o.elem is None else self.join_v(o.elem, vv, st)
            res = V(res.tag, cur.ref)
        self.assign(s.target, res, st, s, aug=True)
        return st

    def s_Return(self, s, st):
        fr = self.stack[-1]
        v = self.eval(s.value, st) if s.value is not None else V(self.d.const(None, s))
        self.d.on_return(self, fr.func, v, s, st)
        fr.returns.append(v)
        fr.ret_states.append(st)
        dead = State(st.env, st.store)
        dead.dead = True
        return dead

    def s_Raise(self, s, st):
        if s.exc is not None:
            self.eval(s.exc, st)
        fr = self.stack[-1]
        if fr.try_acc:
            self._note_exc(st)
        dead = State(st.env, st.store)
        dead.dead = True
        return dead

    def s_Break(self, s, st):
        fr = self.stack[-1]
        fr.loops[-1]["break"] = self.join_states(fr.loops[-1]["break"], st)
        dead = State(st.env, st.store)
        dead.dead = True
        return dead

    def s_Continue(self, s, st):
        fr = self.stack[-1]
        fr.loops[-1]["continue"] = self.join_states(fr.loops[-1]["continue"], st)
        dead = State(st.env, st.store)
        dead.dead = True
        return dead

    def s_If(self, s, st):
        tv = self.eval(s.test, st)
        truth = self.truth(s.test, tv, st)
        sa = st.copy()
        sb = st
        self.refine(s.test, True, sa)
        self.refine(s.test, False, sb)
        ra = self.block(s.body, sa) if truth is not False else None
        rb = self.block(s.orelse, sb) if truth is not True else None
        if ra is None and rb is None:
            return st
        out = self.join_states(ra, rb)
        if out is None:
            d = State(st.env, st.store)
            d.dead = True
            return d
        if (ra is None or ra.dead) and (rb is None or rb.dead):
            out.dead = True
        return out

    def truth(self, test, tv, st):
        """Static truth value of a test if the domain / constants decide it, else None."""
        return None

    def refine(self, test, truth, st):
        """Refinement of `st` under `test` == truth (generic key-membership part + domain part)."""
        t = test
        tr = truth
        while isinstance(t, ast.UnaryOp) and isinstance(t.op, ast.Not):
            t, tr = t.operand, not tr
        if isinstance(t, ast.Compare) and len(t.ops) == 1 and isinstance(t.ops[0], (ast.In, ast.NotIn)) and isinstance(t.comparators[0], ast.Name):
            key = self.const_key(t.left, st)
            present = isinstance(t.ops[0], ast.In) == tr
            if key is not _NOKEY and not present and t.comparators[0].id in st.env:
                o = self.obj(st, st.env[t.comparators[0].id])
                if o is not None and o.kind == "dict" and key in o.slots:
                    o = self.mobj(st, st.env[t.comparators[0].id])
                    del o.slots[key]
        r = getattr(self.d, "refine", None)
        if r is not None:
            r(self, test, truth, st)

    def _loop(self, s, st, bind, test=None):
        fr = self.stack[-1]
        head = st
        exit_state = None
        info = {"break": None, "continue": None}
        for rnd in range(LOOP_ROUNDS + 1):
            info = {"break": None, "continue": None}
            fr.loops.append(info)
            body_in = head.copy()
            if test is not None:
                self.eval(test, body_in)
                self.refine(test, True, body_in)
            bind(body_in)
            try:
                out = self.block(s.body, body_in)
            finally:
                fr.loops.pop()
            back = self.join_states(out if not out.dead else None, info["continue"])
            new_head = self.join_states(head.copy(), back) if back is not None else head
            exit_state = self.join_states(exit_state, info["break"])
            if back is None or self.states_equal(new_head, head):
                head = new_head
                break
            if rnd == LOOP_ROUNDS:
                w = getattr(self.d, "widen_state", None)
                if w is not None:
                    w(self, head, new_head)
            head = new_head
        return head, exit_state

    def _syntactic_unroll(self, s):
        """A `for` over a literal table of names / constants (directly, or through a local bound once to the literal):
        the bodies with the loop variables replaced by the table entries, one per row -- so that a test on the loop
        variable (`if value is None: raise`) refines the variable the row names.  None if the loop is not of that form."""
        import copy

        it = s.iter
        fr = self.stack[-1] if self.stack else None
        f = getattr(fr, "func", None)
        if isinstance(it, ast.Name) and f is not None:
            defs = [n.value for n in f.own_nodes() if isinstance(n, ast.Assign) and len(n.targets) == 1 and isinstance(n.targets[0], ast.Name) and n.targets[0].id == it.id]
            stores = [n for n in f.own_nodes() if isinstance(n, ast.Name) and n.id == it.id and isinstance(n.ctx, ast.Store)]
            if len(defs) != 1 or len(stores) != 1:
                return None
            it = defs[0]
        if not isinstance(it, (ast.Tuple, ast.List)) or not it.elts or len(it.elts) > 12:
            return None
        tnames = [s.target] if isinstance(s.target, ast.Name) else (list(s.target.elts) if isinstance(s.target, (ast.Tuple, ast.List)) else None)
        if tnames is None or not all(isinstance(t, ast.Name) for t in tnames):
            return None
        rows = []
        for e in it.elts:
            cells = [e] if isinstance(s.target, ast.Name) else (list(e.elts) if isinstance(e, (ast.Tuple, ast.List)) else None)
            if cells is None or len(cells) != len(tnames) or not all(isinstance(c, (ast.Name, ast.Constant)) for c in cells):
                return None
            rows.append(cells)
        if not any(isinstance(c, ast.Name) for r in rows for c in r):
            return None  # nothing to gain over the value-based unrolling
        names = {t.id for t in tnames}
        for b in s.body:
            for x in ast.walk(b):
                if isinstance(x, ast.Name) and x.id in names and isinstance(x.ctx, ast.Store):
                    return None
                if isinstance(x, (ast.Break, ast.Continue)):
                    return None
        # the names in the rows must not be rebound by the body either
        rownames = {c.id for r in rows for c in r if isinstance(c, ast.Name)}
        for b in s.body:
            for x in ast.walk(b):
                if isinstance(x, ast.Name) and x.id in rownames and isinstance(x.ctx, ast.Store):
                    return None
        out = []
        for cells in rows:
            sub = {t.id: c for t, c in zip(tnames, cells)}

            class _S(ast.NodeTransformer):
                def visit_Name(self_, n):
                    if n.id in sub and isinstance(n.ctx, ast.Load):
                        return ast.copy_location(copy.deepcopy(sub[n.id]), n)
                    return n

            out.append([ast.fix_missing_locations(_S().visit(copy.deepcopy(b))) for b in s.body])
        return out

    def s_For(self, s, st):
        bodies = self._syntactic_unroll(s) if not s.orelse else None
        if bodies is not None:
            cur = st
            for body in bodies:
                cur = self.block(body, cur)
                if cur.dead:
                    break
            return cur
        itv = self.eval(s.iter, st)
        elem = self.iter_elem(itv, s.iter, st)
        const_items = self.const_iter(s.iter, st)
        if const_items is None:
            const_items = self.unroll_items(itv, st)
        if const_items is not None and len(const_items) <= 12:
            # unroll loops over constant tuples/lists
            cur = st
            fr = self.stack[-1]
            exit_state = None
            for idx, item in enumerate(const_items):
                info = {"break": None, "continue": None}
                fr.loops.append(info)
                self.iter_ctx.append(idx)
                try:
                    self.assign(s.target, item, cur, s)
                    out = self.block(s.body, cur)
                finally:
                    fr.loops.pop()
                    self.iter_ctx.pop()
                exit_state = self.join_states(exit_state, info["break"])
                cur = self.join_states(out if not out.dead else None, info["continue"])
                if cur is None:
                    break
            if cur is not None:
                cur = self.block(s.orelse, cur) if s.orelse else cur
            res = self.join_states(cur, exit_state)
            if res is None:
                res = State(st.env, st.store)
                res.dead = True
            return res

        def bind(b):
            self.assign(s.target, elem, b, s)

        head, exit_state = self._loop(s, st, bind)
        end = self.block(s.orelse, head) if s.orelse else head
        res = self.join_states(end, exit_state)
        return res

    s_AsyncFor = s_For

    def s_While(self, s, st):
        infinite = isinstance(s.test, ast.Constant) and bool(s.test.value)
        head, exit_state = self._loop(s, st, lambda b: None, test=s.test)
        if infinite:
            if exit_state is None:
                d = State(st.env, st.store)
                d.dead = True
                return d
            return exit_state
        end = head.copy()
        self.eval(s.test, end)
        self.refine(s.test, False, end)
        if s.orelse:
            end = self.block(s.orelse, end)
        return self.join_states(end, exit_state)

    def s_With(self, s, st):
        for it in s.items:
            v = self.eval(it.context_expr, st)
            if it.optional_vars is not None:
                ev = self.d_with_enter(v, it.context_expr, st)
                self.assign(it.optional_vars, ev, st, s)
        return self.block(s.body, st)

    s_AsyncWith = s_With

    def d_with_enter(self, v, node, st):
        h = getattr(self.d, "with_enter", None)
        if h is not None:
            r = h(self, v, node, st)
            if r is not None:
                return r
        return v

    def s_Try(self, s, st):
        fr = self.stack[-1]
        acc = [st.copy()]
        fr.try_acc.append(acc)
        try:
            out = self.block(s.body, st)
        finally:
            fr.try_acc.pop()
        hstart = acc[0]
        if out is not None and not out.dead:
            hstart = self.join_states(hstart, out.copy())
        if s.orelse and not out.dead:
            out = self.block(s.orelse, out)
        res = out if not out.dead else None
        for h in s.handlers:
            hs = hstart.copy()
            hs.dead = False
            if h.name:
                hs.env[h.name] = V(self.d.unknown(h))
            ho = self.block(h.body, hs)
            if not ho.dead:
                res = self.join_states(res, ho)
        if res is None:
            res = State(st.env, st.store)
            res.dead = True
        if s.finalbody:
            dead = res.dead
            res.dead = False
            res = self.block(s.finalbody, res)
            res.dead = res.dead or dead
        return res

    def s_Match(self, s, st):
        self.eval(s.subject, st)
        res = st.copy()
        for c in s.cases:
            res = self.join_states(res, self.block(c.body, st.copy()))
        return res

    # ------------------------------------------------------------ assignment
    def assign(self, target, v: V, st: State, stmt, aug=False):
        if isinstance(target, ast.Name):
            fr = self.stack[-1]
            f = fr.func
            if target.id in f.globals_decl:
                self.d.on_store(self, "global", V(self.d.bottom()), target.id, v, stmt, st)
            elif target.id in f.nonlocals_decl:
                self.d.on_store(self, "nonlocal", V(self.d.bottom()), target.id, v, stmt, st)
                if fr.parent_env is not None:
                    fr.parent_env[target.id] = v
            st.env[target.id] = v
        elif isinstance(target, (ast.Tuple, ast.List)):
            o = self.obj(st, v)
            n = len(target.elts)
            for i, t in enumerate(target.elts):
                if isinstance(t, ast.Starred):
                    self.assign(t.value, V(v.tag, v.ref), st, stmt)
                    continue
                ev = None
                if o is not None:
                    ev = o.slots.get(i)
                    if ev is None and o.elem is not None:
                        ev = o.elem
                if ev is None:
                    ev = self.unpack_elem(v, i, n, stmt, st)
                self.assign(t, ev, st, stmt)
        elif isinstance(target, ast.Subscript):
            base = self.eval(target.value, st)
            key = self.const_key(target.slice, st)
            if key is _NOKEY:
                self.eval(target.slice, st)
            self.d.on_store(self, "subscript", base, key if key is not _NOKEY else None, v, stmt, st)
            o = self.mobj(st, base)
            if o is not None:
                sl = target.slice
                if key is not _NOKEY and o.kind in ("dict", "obj", "unknown", "list", "tuple"):
                    o.slots[key] = v  # strong update
                elif o.kind == "array" and isinstance(sl, ast.Tuple) and sl.elts and isinstance(sl.elts[-1], ast.Constant) and isinstance(sl.elts[-1].value, int) and not isinstance(sl.elts[-1].value, bool):
                    ck = ("col", sl.elts[-1].value)  # arr[i, c] = v: per-column summary (weak over rows)
                    o.slots[ck] = v if ck not in o.slots else self.join_v(o.slots[ck], v, st)
                else:
                    o.elem = v if o.elem is None else self.join_v(o.elem, v, st)
            s2 = getattr(self.d, "store_into_scalar", None)
            if o is None and s2 is not None:
                nb = s2(self, base, key if key is not _NOKEY else None, v, stmt, st)
                if nb is not None:
                    self.rebind(target.value, nb, st)
        elif isinstance(target, ast.Attribute):
            base = self.eval(target.value, st)
            self.d.on_store(self, "attr", base, target.attr, v, stmt, st)
            o = self.mobj(st, base)
            if o is not None:
                o.slots["." + target.attr] = v
        elif isinstance(target, ast.Starred):
            self.assign(target.value, v, st, stmt)

    def rebind(self, expr, v, st):
        if isinstance(expr, ast.Name):
            st.env[expr.id] = v
        elif isinstance(expr, ast.Attribute):
            o = self.mobj(st, self.eval(expr.value, st))
            if o is not None:
                o.slots["." + expr.attr] = v
        elif isinstance(expr, ast.Subscript):
            o = self.mobj(st, self.eval(expr.value, st))
            key = self.const_key(expr.slice, st)
            if o is not None and key is not _NOKEY:
                o.slots[key] = v

    def unpack_elem(self, v, i, n, node, st):
        h = getattr(self.d, "unpack", None)
        if h is not None:
            r = h(self, v, i, n, node, st)
            if r is not None:
                return r
        return V(v.tag)

    # ----------------------------------------------------------- expressions
    def const_key(self, sl, st):
        """Constant subscript key (str/int/tuple of those) or _NOKEY."""
        if isinstance(sl, ast.Constant) and isinstance(sl.value, (str, int, bool, type(None))):
            return sl.value
        if isinstance(sl, ast.Tuple) and all(isinstance(e, ast.Constant) and isinstance(e.value, (str, int)) for e in sl.elts):
            return tuple(e.value for e in sl.elts)
        if isinstance(sl, ast.UnaryOp) and isinstance(sl.op, ast.USub) and isinstance(sl.operand, ast.Constant) and isinstance(sl.operand.value, int):
            return -sl.operand.value
        if isinstance(sl, ast.Name):
            v = st.env.get(sl.id)
            if v is not None:
                c = self.const_of(v, st)
                if c is not _NOKEY and isinstance(c, (str, int, tuple)):
                    return c
        if isinstance(sl, ast.Tuple):
            parts = []
            for e in sl.elts:
                c = self.const_key(e, st)
                if c is _NOKEY or isinstance(c, tuple):
                    return _NOKEY
                parts.append(c)
            return tuple(parts)
        return _NOKEY

    def const_of(self, v, st):
        if v is None:
            return _NOKEY
        if v.const is not NOCONST:
            return v.const
        o = self.obj(st, v)
        if o is not None and o.kind == "tuple" and o.elem is None and o.slots:
            parts = []
            for i in range(len(o.slots)):
                if i not in o.slots:
                    return _NOKEY
                c = self.const_of(o.slots[i], st)
                if c is _NOKEY or isinstance(c, tuple):
                    return _NOKEY
                parts.append(c)
            return tuple(parts)
        ck = getattr(self.d, "const_of", None)
        if ck is None:
            return _NOKEY
        return ck(self, v, st)

    def heapify(self, value, node, st, depth=0):
        """Turn a Python constant (from the constant evaluator) into an abstract value."""
        if isinstance(value, (list, tuple)) and depth < 4 and len(value) <= 64:
            slots = {i: self.heapify(x, node, st, depth + 1) for i, x in enumerate(value)}
            a = ("const", id(node), depth, id(value))
            st.put(a, Obj("tuple" if isinstance(value, tuple) else "list", slots))
            return V(self.d.fresh("list", node), a)
        if isinstance(value, dict) and depth < 4 and len(value) <= 64:
            slots = {}
            for k, x in value.items():
                if isinstance(k, (str, int, tuple)):
                    slots[k] = self.heapify(x, node, st, depth + 1)
            a = ("const", id(node), depth, id(value))
            st.put(a, Obj("dict", slots))
            return V(self.d.fresh("dict", node), a)
        if isinstance(value, (str, int)) and not isinstance(value, bool):
            return V(self.d.const(value, node), None, value)
        if value is None or isinstance(value, (float, bool)):
            return V(self.d.const(value, node))
        from .consteval import FuncRef

        if isinstance(value, FuncRef):
            a = ("constfunc", id(value.func))
            st.put(a, Obj("func", meta={"func": value.func}))
            return V(self.d.fresh("func", node), a)
        return V(self.d.unknown(node))

    def load_const_global(self, r, node, st):
        """Heapified constant value of a module-level table (lists/tuples/dicts, possibly holding lambdas)."""
        from .consteval import ConstEval, NotConstant

        if not hasattr(self, "_ce"):
            self._ce = ConstEval(self.prog)
        b = r[3]
        if isinstance(b.value, (ast.List, ast.Tuple, ast.Dict)) or (isinstance(b.value, ast.Call) and r[2].isupper()):
            try:
                val = self._ce.global_value(r[1], r[2])
            except NotConstant:
                return None
            if isinstance(val, (list, tuple, dict)):
                return self.heapify(val, node, st)
        return None

    def unroll_items(self, itv, st, limit=12):
        """Elements of a fully known list/tuple value (no summary element), else None."""
        o = self.obj(st, itv)
        if o is None or o.kind not in ("list", "tuple") or o.elem is not None:
            return None
        keys = sorted(k for k in o.slots if isinstance(k, int))
        if keys != list(range(len(keys))) or len(keys) != len(o.slots) or not keys or len(keys) > limit:
            return None
        return [o.slots[k] for k in keys]

    def const_iter(self, node, st):
        """List of V for a literal tuple/list of constants being iterated, else None."""
        if isinstance(node, (ast.Tuple, ast.List)) and node.elts and all(isinstance(e, ast.Constant) for e in node.elts):
            return [self.e_Constant(e, st) for e in node.elts]
        return None

    def iter_elem(self, itv: V, node, st) -> V:
        r = self.d.iter_elem(self, itv, node, st)
        if r is not None:
            return r
        o = self.obj(st, itv)
        if o is not None:
            ev = o.elem
            for k, sv in o.slots.items():
                if o.kind == "dict":
                    continue  # iterating a dict yields keys
                ev = sv if ev is None else self.join_v(ev, sv, st)
            if o.kind == "dict":
                return V(self.d.bottom())
            if ev is not None:
                return ev
        return V(itv.tag)

    def eval(self, e, st: State) -> V:
        m = getattr(self, "e_" + type(e).__name__, None)
        if m is None:
            raise AnalysisError(f"expression kind {type(e).__name__} not modelled by the abstract interpreter")
        return m(e, st)

    def e_Constant(self, e, st):
        if isinstance(e.value, (str, int)) and not isinstance(e.value, bool):
            return V(self.d.const(e.value, e), None, e.value)
        return V(self.d.const(e.value, e))

    def lookup_name(self, name, st):
        if name in st.env:
            return st.env[name]
        fr = self.stack[-1]
        # closure variables
        pe = fr.parent_env
        f = fr.func
        hops = 0
        while pe is not None and hops < 4:
            if name in pe:
                return pe[name]
            f = f.parent if f is not None else None
            pe = self.closures.get(id(f)) if f is not None else None
            hops += 1
        return None

    def e_Name(self, e, st):
        v = self.lookup_name(e.id, st)
        if v is not None:
            h = getattr(self.d, "on_name_load", None)
            if h is not None:
                v2 = h(self, e, v, st)
                if v2 is not None:
                    return v2
            return v
        fr = self.stack[-1]
        f = fr.func
        if e.id in f.locals and e.id not in f.params:
            # unbound local on this path
            return V(self.d.absent())
        r = self.prog.lookup(f.parent, f.module, e.id) if e.id not in f.locals else None
        if r is None:
            r = self.prog.lookup(None, f.module, e.id)
        if r is None:
            return V(self.d.unknown(e))
        if r[0] == "func":
            return self.new(st, "func", e, meta={"func": r[1]}, tag=self.d.global_ref(r, e))
        if r[0] == "class":
            return self.new(st, "class", e, meta={"class": r[1]}, tag=self.d.global_ref(r, e))
        if r[0] == "module":
            return self.new(st, "module", e, meta={"module": r[1]}, tag=self.d.global_ref(r, e))
        if r[0] == "external":
            return self.new(st, "external", e, meta={"external": r[1]}, tag=self.d.global_ref(r, e))
        if r[0] == "global":
            h = getattr(self.d, "load_global", None)
            if h is not None:
                v = h(self, r, e, st)
                if v is not None:
                    return v
            return V(self.d.global_ref(r, e))
        return V(self.d.unknown(e))

    def note_deref(self, expr, base, st):
        h = getattr(self.d, "deref", None)
        if h is not None:
            h(self, expr, base, st)

    def e_Attribute(self, e, st):
        base = self.eval(e.value, st)
        self.note_deref(e.value, base, st)
        o = self.obj(st, base)
        if o is not None:
            if o.kind == "module":
                r = self.prog.resolve_global(o.meta["module"], e.attr)
                if r is not None:
                    return self._resolved_to_v(r, e, st)
            if o.kind == "external":
                return self.new(st, "external", e, meta={"external": o.meta["external"] + "." + e.attr}, tag=self.d.global_ref(("external", o.meta["external"] + "." + e.attr), e))
        r = self.d.attr(self, base, e.attr, e, st)
        if r is not None:
            return r
        if o is not None and ("." + e.attr) in o.slots:
            return o.slots["." + e.attr]
        return V(base.tag)

    def _resolved_to_v(self, r, e, st):
        if r[0] == "func":
            return self.new(st, "func", e, meta={"func": r[1]}, tag=self.d.global_ref(r, e))
        if r[0] == "class":
            return self.new(st, "class", e, meta={"class": r[1]}, tag=self.d.global_ref(r, e))
        if r[0] == "module":
            return self.new(st, "module", e, meta={"module": r[1]}, tag=self.d.global_ref(r, e))
        if r[0] == "external":
            return self.new(st, "external", e, meta={"external": r[1]}, tag=self.d.global_ref(r, e))
        if r[0] == "global":
            h = getattr(self.d, "load_global", None)
            if h is not None:
                v = h(self, r, e, st)
                if v is not None:
                    return v
            return V(self.d.global_ref(r, e))
        return V(self.d.unknown(e))

    def e_Subscript(self, e, st):
        base = self.eval(e.value, st)
        self.note_deref(e.value, base, st)
        key = self.const_key(e.slice, st)
        idx = self.eval(e.slice, st) if key is _NOKEY or True else None
        r = self.d.subscript(self, base, idx, key if key is not _NOKEY else None, e, st)
        if r is not None:
            return r
        o = self.obj(st, base)
        if o is not None:
            if key is not _NOKEY and key in o.slots:
                h = getattr(self.d, "on_key_load", None)
                if h is not None and o.kind == "dict":
                    nv = h(self, base, key, o.slots[key], st)
                    if nv is not None:
                        return nv
                return o.slots[key]
            if isinstance(key, int) and key < 0 and o.kind in ("list", "tuple") and not o.elem:
                n = len([k for k in o.slots if isinstance(k, int)])
                if (n + key) in o.slots:
                    return o.slots[n + key]
            if key is _NOKEY or key not in o.slots:
                ev = o.elem
                if key is _NOKEY:
                    for k, sv in o.slots.items():
                        ev = sv if ev is None else self.join_v(ev, sv, st)
                if ev is not None:
                    return ev
        return V(base.tag)

    def e_Slice(self, e, st):
        for x in (e.lower, e.upper, e.step):
            if x is not None:
                self.eval(x, st)
        return V(self.d.bottom())

    def e_Tuple(self, e, st):
        slots = {}
        elem = None
        for i, x in enumerate(e.elts):
            if isinstance(x, ast.Starred):
                v = self.eval(x.value, st)
                ev = self.iter_elem(v, x, st)
                elem = ev if elem is None else self.join_v(elem, ev, st)
            else:
                slots[i] = self.eval(x, st)
        kind = "tuple" if isinstance(e, ast.Tuple) else ("list" if isinstance(e, ast.List) else "set")
        return self.new(st, kind, e, slots=slots, elem=elem)

    e_List = e_Tuple
    e_Set = e_Tuple

    def e_Dict(self, e, st):
        slots = {}
        elem = None
        for k, v in zip(e.keys, e.values):
            vv = self.eval(v, st)
            if k is None:
                o = self.obj(st, vv)
                if o is not None:
                    slots.update(o.slots)
                    if o.elem is not None:
                        elem = o.elem if elem is None else self.join_v(elem, o.elem, st)
                else:
                    elem = V(vv.tag) if elem is None else self.join_v(elem, V(vv.tag), st)
                continue
            ck = self.const_key(k, st)
            if ck is _NOKEY:
                self.eval(k, st)
                elem = vv if elem is None else self.join_v(elem, vv, st)
            else:
                slots[ck] = vv
        return self.new(st, "dict", e, slots=slots, elem=elem)

    def e_BinOp(self, e, st):
        l = self.eval(e.left, st)
        r = self.eval(e.right, st)
        if isinstance(e.op, ast.Mod) and isinstance(e.left, ast.Constant) and isinstance(e.left.value, str):
            o = self.obj(st, r)
            vals = list(o.slots.values()) if o is not None and o.kind == "tuple" else [r]
            return self.d.format(self, vals, e, st)
        return self.d.binop(self, e.op, l, r, e, st)

    def e_UnaryOp(self, e, st):
        return self.d.unaryop(self, e.op, self.eval(e.operand, st), e, st)

    def e_BoolOp(self, e, st):
        out = None
        h = getattr(self.d, "boolop_operand", None)
        n = len(e.values)
        for i, x in enumerate(e.values):
            v = self.eval(x, st)
            if h is not None:
                v = h(self, e.op, v, i == n - 1, st)
            out = v if out is None else self.join_v(out, v, st)
        return out

    def e_Compare(self, e, st):
        vals = [self.eval(e.left, st)] + [self.eval(c, st) for c in e.comparators]
        return self.d.compare(self, e, vals, st)

    def e_IfExp(self, e, st):
        self.eval(e.test, st)
        sa = st.copy()
        self.refine(e.test, True, sa)
        a = self.eval(e.body, sa)
        sb = st.copy()
        self.refine(e.test, False, sb)
        b = self.eval(e.orelse, sb)
        j = self.join_states(sa, sb)
        st.store = j.store
        st.owned = j.owned
        st.env = j.env
        return self.join_v(a, b, st)

    def e_JoinedStr(self, e, st):
        vals = []
        for x in e.values:
            if isinstance(x, ast.FormattedValue):
                vals.append(self.eval(x.value, st))
                h = getattr(self.d, "on_format_spec", None)
                if h is not None:
                    h(self, x, vals[-1], st)
        return self.d.format(self, vals, e, st)

    def e_FormattedValue(self, e, st):
        return self.eval(e.value, st)

    def e_Lambda(self, e, st):
        f = self.prog.func_of_node.get(id(e))
        if f is not None:
            self.closures[id(f)] = st.env
        return self.new(st, "func", e, meta={"func": f})

    def e_NamedExpr(self, e, st):
        v = self.eval(e.value, st)
        self.assign(e.target, v, st, e)
        return v

    def e_Starred(self, e, st):
        return self.eval(e.value, st)

    def e_Yield(self, e, st):
        v = self.eval(e.value, st) if e.value is not None else V(self.d.const(None, e))
        fr = self.stack[-1]
        fr.yields.append(v)
        self.d.on_return(self, fr.func, v, e, st)
        return V(self.d.bottom())

    def e_YieldFrom(self, e, st):
        v = self.eval(e.value, st)
        fr = self.stack[-1]
        fr.yields.append(self.iter_elem(v, e, st))
        return V(self.d.bottom())

    def e_Await(self, e, st):
        return self.eval(e.value, st)

    def _comp(self, e, st, build):
        saved = dict(st.env)
        for g in e.generators:
            itv = self.eval(g.iter, st)
            self.assign(g.target, self.iter_elem(itv, g.iter, st), st, e)
            for c in g.ifs:
                self.eval(c, st)
                self.refine(c, True, st)
        out = build()
        # comprehension variables do not leak
        for k in list(st.env):
            if k not in saved:
                del st.env[k]
        for k, v in saved.items():
            st.env[k] = v
        return out

    def _comp_unrolled(self, e, st):
        """Single-generator comprehension over a fully known container: per-item evaluation."""
        if len(e.generators) != 1:
            return None
        g = e.generators[0]
        itv = self.eval(g.iter, st)
        items = self.unroll_items(itv, st, limit=16)
        if items is None:
            return None
        saved = dict(st.env)
        out = []
        for idx, item in enumerate(items):
            self.iter_ctx.append(idx)
            self.assign(g.target, item, st, e)
            sub = st.copy() if g.ifs else st
            for c in g.ifs:
                self.eval(c, sub)
                self.refine(c, True, sub)
            if isinstance(e, ast.DictComp):
                k = self.const_key(e.key, sub)
                if k is _NOKEY:
                    k = self.const_of(self.eval(e.key, sub), sub)
                v = self.eval(e.value, sub)
                out.append((k, v, bool(g.ifs)))
            else:
                out.append((None, self.eval(e.elt, sub), bool(g.ifs)))
            if g.ifs:
                j = self.join_states(st, sub)
                st.store = j.store
                st.owned = j.owned
            self.iter_ctx.pop()
        for k in list(st.env):
            if k not in saved:
                del st.env[k]
        for k, v in saved.items():
            st.env[k] = v
        return out

    def e_ListComp(self, e, st):
        un = self._comp_unrolled(e, st)
        if un is not None and not any(f for _, _, f in un):
            return self.new(st, "list", e, slots={i: v for i, (_, v, _) in enumerate(un)})
        if un is not None:
            ev = None
            for _, v, _ in un:
                ev = v if ev is None else self.join_v(ev, v, st)
            return self.new(st, "list", e, elem=ev)
        return self._comp(e, st, lambda: self.new(st, "list", e, elem=self.eval(e.elt, st)))

    def e_SetComp(self, e, st):
        return self._comp(e, st, lambda: self.new(st, "set", e, elem=self.eval(e.elt, st)))

    def e_GeneratorExp(self, e, st):
        # over a fully known container of a few items (the columns of `zip(*records)`), item by item: the results
        # keep their positions, so that unpacking the generator gives every name its own column
        un = self._comp_unrolled(e, st) if len(e.generators) == 1 and not e.generators[0].ifs else None
        if un is not None and not any(f for _, _, f in un):
            return self.new(st, "list", e, slots={i: v for i, (_, v, _) in enumerate(un)}, meta={"genexp": True})
        return self._comp(e, st, lambda: self.new(st, "list", e, elem=self.eval(e.elt, st), meta={"genexp": True}))

    def e_DictComp(self, e, st):
        un = self._comp_unrolled(e, st)
        if un is not None and all(isinstance(k, (str, int, tuple)) for k, _, _ in un):
            slots = {}
            for k, v, filtered in un:
                slots[k] = self.join_v(v, None, st) if filtered else v
            return self.new(st, "dict", e, slots=slots)

        def build():
            self.eval(e.key, st)
            return self.new(st, "dict", e, elem=self.eval(e.value, st))

        return self._comp(e, st, build)

    # ----------------------------------------------------------------- calls
    def e_Call(self, e, st):
        fr = self.stack[-1]
        cs = self.callsite_of.get(id(e))
        fn = e.func
        # evaluate callee expression for method calls (base value)
        basev = None
        method = None
        calleev = None
        if isinstance(fn, ast.Attribute):
            basev = self.eval(fn.value, st)
            self.note_deref(fn.value, basev, st)
            method = fn.attr
            bo = self.obj(st, basev)
            if bo is not None and bo.kind in ("module", "external"):
                calleev = self.e_Attribute(fn, st)
                basev = None
        else:
            calleev = self.eval(fn, st)
        args = []
        star = False
        for a in e.args:
            if isinstance(a, ast.Starred):
                sv = self.eval(a.value, st)
                so = self.obj(st, sv)
                if so is not None and so.kind in ("tuple", "list") and so.elem is None:
                    for i in sorted(k for k in so.slots if isinstance(k, int)):
                        args.append(so.slots[i])
                else:
                    args.append(self.iter_elem(sv, a, st))
                    star = True
            else:
                args.append(self.eval(a, st))
        kwargs = {}
        for k in e.keywords:
            v = self.eval(k.value, st)
            if k.arg is None:
                ko = self.obj(st, v)
                if ko is not None:
                    for kk, vv in ko.slots.items():
                        if isinstance(kk, str):
                            kwargs[kk] = vv
                kwargs.setdefault("**", v)
            else:
                kwargs[k.arg] = v
        co = self.obj(st, calleev) if calleev is not None else None
        # zip(*records) with records a list of fixed-arity tuples: the transposition -- column i is a list of the
        # i-th fields (a tuple of k lists; without this every column would be the join of all fields)
        if co is not None and co.kind == "external" and co.meta.get("external") == "builtins.zip" and len(e.args) == 1 and isinstance(e.args[0], ast.Starred) and not e.keywords and len(args) == 1:
            ro = self.obj(st, args[0])
            if ro is not None and ro.kind == "tuple" and ro.elem is None:
                keys = sorted(k for k in ro.slots if isinstance(k, int))
                if keys and keys == list(range(len(keys))) and len(keys) == len(ro.slots) and len(keys) <= 16:
                    cols = {}
                    for i in keys:
                        self.iter_ctx.append(("zipcol", i))  # one allocation address per column
                        try:
                            cols[i] = self.new(st, "list", e.args[0], elem=ro.slots[i])
                        finally:
                            self.iter_ctx.pop()
                    return self.new(st, "tuple", e, slots=cols)
        # 1. package function / lambda / closure held in a value
        target = None
        if co is not None and co.kind == "func" and co.meta.get("func") is not None:
            target = co.meta["func"]
        elif cs is not None and cs.callees and cs.cls is None and basev is None:
            target = cs.callees[0] if len(cs.callees) == 1 else None
        if target is not None:
            self.d.on_call(self, cs, ("func", target), args, kwargs, e, st)
            return self.call_func(target, args, kwargs, e, st)
        if cs is not None and len(cs.callees) > 1 and cs.cls is None and basev is None and not cs.registry_op and not (co is not None and co.kind in ("class", "external")):
            # a function taken from a literal dispatch table (may-call): the join over every candidate
            out = None
            for g in cs.callees:
                self.d.on_call(self, cs, ("func", g), args, kwargs, e, st)
                sc = st.copy()
                r, s2 = self.run_function(g, self._bind(g, args, kwargs, st), sc, callnode=e)
                keepenv = st.env
                merged = self.join_states(st, s2)
                st.store, st.owned, st.env = merged.store, merged.owned, keepenv
                out = r if out is None else self.join_v(out, r, st)
            return out if out is not None else V(self.d.unknown(e))
        if cs is not None and cs.registry_op:
            self.d.on_call(self, cs, ("registry", cs.registry_op), args, kwargs, e, st)
            out = None
            for g in cs.callees:
                sc = st.copy()
                r, s2 = self.run_function(g, self._bind(g, args, kwargs, st), sc, callnode=e)
                keepenv = st.env
                merged = self.join_states(st, s2)
                st.store, st.owned, st.env = merged.store, merged.owned, keepenv
                out = r if out is None else self.join_v(out, r, st)
            return out if out is not None else V(self.d.unknown(e))
        # 2. class constructor
        if co is not None and co.kind == "class":
            ci = co.meta["class"]
            self.d.on_call(self, cs, ("class", ci), args, kwargs, e, st)
            h = getattr(self.d, "construct", None)
            if h is not None:
                r = h(self, ci, args, kwargs, e, st)
                if r is not None:
                    return r
            return self.default_construct(ci, args, kwargs, e, st)
        # 3. external function
        if co is not None and co.kind == "external":
            nm = co.meta["external"]
            self.d.on_call(self, cs, ("external", nm), args, kwargs, e, st)
            r = self.d.call_external(self, nm, args, kwargs, e, st)
            if r is not None:
                return r
            r = self.default_external(nm, args, kwargs, e, st)
            if r is not None:
                return r
            return self.d.call_unknown(self, e, args, kwargs, st)
        # 4. method on a value
        if basev is not None:
            self.d.on_call(self, cs, ("method", method, basev), args, kwargs, e, st)
            # methods of package classes (self.method / obj.method with known class)
            bo = self.obj(st, basev)
            if bo is not None and bo.meta.get("class") is not None and bo.kind == "obj":
                ci = bo.meta["class"]
                m = ci.methods.get(method)
                if m is not None:
                    return self.call_func(m, [basev] + args, kwargs, e, st)
            r = self.d.call_method(self, basev, method, args, kwargs, e, st)
            if r is not None:
                return r
            r = self.default_method(basev, method, args, kwargs, e, st)
            if r is not None:
                return r
            return self.d.call_unknown(self, e, [basev] + args, kwargs, st)
        self.d.on_call(self, cs, ("unknown",), args, kwargs, e, st)
        return self.d.call_unknown(self, e, args, kwargs, st)

    def _bind(self, g: Func, args, kwargs, st):
        bound = {}
        pos = list(g.posparams)
        for i, a in enumerate(args):
            if i < len(pos):
                bound[pos[i]] = a
            elif g.vararg:
                pass
        for k, v in kwargs.items():
            if k in g.params and k != "**":
                bound[k] = v
        if g.kwarg:
            extra = {k: v for k, v in kwargs.items() if k not in g.params and k != "**"}
            bound[g.kwarg] = self.new(st, "dict", g.node, slots=extra)
        if g.vararg:
            rest = args[len(pos):]
            bound[g.vararg] = self.new(st, "tuple", g.node, slots=dict(enumerate(rest)))
        return bound

    def call_func(self, g: Func, args, kwargs, node, st):
        h = getattr(self.d, "intercept_call", None)
        if h is not None:
            r = h(self, g, args, kwargs, node, st)
            if r is not None:
                return r
        if self.inline_filter is not None and not self.inline_filter(g):
            return self.d.call_unknown(self, node, args, kwargs, st)
        env = st.env
        r, s2 = self.run_function(g, self._bind(g, args, kwargs, st), st, callnode=node)
        st.store = s2.store
        st.owned = s2.owned
        st.env = env
        return r

    # ------------------------------------------------------ default semantics
    def default_construct(self, ci, args, kwargs, node, st):
        slots = {}
        fields = [n for n in ci.fields]
        for i, a in enumerate(args):
            if i < len(fields):
                slots["." + fields[i].lstrip("_")] = a
        for k, v in kwargs.items():
            if k != "**":
                slots["." + k] = v
        return self.new(st, "obj", node, slots=slots, meta={"class": ci})

    def default_external(self, nm, args, kwargs, node, st):
        short = nm.split(".")[-1]
        if nm in ("builtins.dict",):
            slots = {k: v for k, v in kwargs.items() if k != "**"}
            elem = None
            if args:
                o = self.obj(st, args[0])
                if o is not None:
                    slots = {**o.slots, **slots}
                    elem = o.elem
            return self.new(st, "dict", node, slots=slots, elem=elem)
        if nm in ("builtins.list", "builtins.tuple", "builtins.set", "builtins.sorted", "builtins.reversed", "builtins.frozenset"):
            kind = "tuple" if short == "tuple" else ("set" if "set" in short else "list")
            if not args:
                return self.new(st, kind, node)
            o = self.obj(st, args[0])
            if o is not None and o.kind != "dict":
                keep = short in ("list", "tuple") and o.elem is None
                return self.new(st, kind, node, slots=dict(o.slots) if keep else {}, elem=self.iter_elem(args[0], node, st) if not keep else None, tag=self.d.fresh(kind, node))
            return self.new(st, kind, node, elem=self.iter_elem(args[0], node, st))
        if nm in ("builtins.zip",):
            slots = {i: self.iter_elem(a, node, st) for i, a in enumerate(args)}
            t = self.new(st, "tuple", node, slots=slots)
            return self.new(st, "list", node, elem=t)
        if nm in ("builtins.enumerate",):
            ev = self.iter_elem(args[0], node, st) if args else V(self.d.bottom())
            t = self.new(st, "tuple", node, slots={0: V(self.d.bottom()), 1: ev})
            return self.new(st, "list", node, elem=t)
        if nm in ("builtins.iter",) and args:
            return args[0]
        if nm in ("builtins.next",) and args:
            return self.iter_elem(args[0], node, st)
        if nm in ("builtins.getattr",) and len(args) >= 2:
            name = self.const_of(args[1], st)
            if isinstance(name, str):
                o = self.obj(st, args[0])
                if o is not None and ("." + name) in o.slots:
                    return o.slots["." + name]
                r = self.d.attr(self, args[0], name, node, st)
                if r is not None:
                    return r
            return V(args[0].tag)
        return None

    def default_method(self, base, method, args, kwargs, node, st):
        o = self.obj(st, base)
        if o is None:
            return None
        if method in ("append", "add", "extend", "insert", "setdefault", "update", "pop"):
            o = self.mobj(st, base)
        if o.kind in ("list", "set") or (o.kind == "unknown" and method in ("append", "extend", "add")):
            if method in ("append", "add") and args:
                o.elem = args[0] if o.elem is None else self.join_v(o.elem, args[0], st)
                return V(self.d.const(None, node))
            if method == "extend" and args:
                ev = self.iter_elem(args[0], node, st)
                o.elem = ev if o.elem is None else self.join_v(o.elem, ev, st)
                return V(self.d.const(None, node))
            if method == "insert" and len(args) > 1:
                o.elem = args[1] if o.elem is None else self.join_v(o.elem, args[1], st)
                return V(self.d.const(None, node))
            if method == "pop":
                return self.iter_elem(base, node, st)
            if method == "copy":
                return self.new(st, o.kind, node, slots=dict(o.slots), elem=o.elem)
        if o.kind in ("dict", "unknown"):
            key = self.const_of(args[0], st) if args else _NOKEY
            if not isinstance(key, (str, int, tuple)):
                key = _NOKEY
            if method == "get":
                dflt = args[1] if len(args) > 1 else V(self.d.const(None, node))
                if key is not _NOKEY and key in o.slots:
                    h = getattr(self.d, "slot_maybe_absent", None)
                    if h is None or not h(o.slots[key]):
                        return o.slots[key]
                    return self.join_v(o.slots[key], dflt, st)
                if o.elem is not None:
                    return self.join_v(o.elem, dflt, st)
                if key is not _NOKEY and o.kind == "dict" and not o.meta.get("open"):
                    return dflt
                return self.join_v(V(base.tag), dflt, st)
            if method == "setdefault" and args:
                dflt = args[1] if len(args) > 1 else V(self.d.const(None, node))
                if key is not _NOKEY:
                    if key in o.slots:
                        return o.slots[key]
                    o.slots[key] = dflt
                    return dflt
                o.elem = dflt if o.elem is None else self.join_v(o.elem, dflt, st)
                return o.elem
            if method == "update":
                for a in args:
                    ao = self.obj(st, a)
                    if ao is not None:
                        for k, v in ao.slots.items():
                            o.slots[k] = v
                        if ao.elem is not None:
                            o.elem = ao.elem if o.elem is None else self.join_v(o.elem, ao.elem, st)
                    else:
                        o.elem = V(a.tag) if o.elem is None else self.join_v(o.elem, V(a.tag), st)
                        o.meta = {**o.meta, "open": True}
                for k, v in kwargs.items():
                    if k != "**":
                        o.slots[k] = v
                return V(self.d.const(None, node))
            if method == "pop":
                if key is not _NOKEY and key in o.slots:
                    v = o.slots.pop(key)
                    return v
                return self.iter_elem_values(o, base, node, st)
            if method == "copy":
                return self.new(st, "dict", node, slots=dict(o.slots), elem=o.elem)
            if method == "values":
                return self.new(st, "list", node, elem=self.iter_elem_values(o, base, node, st))
            if method == "keys":
                return self.new(st, "list", node, elem=V(self.d.bottom()))
            if method == "items":
                t = self.new(st, "tuple", node, slots={0: V(self.d.bottom()), 1: self.iter_elem_values(o, base, node, st)})
                return self.new(st, "list", node, elem=t)
        return None

    def iter_elem_values(self, o, base, node, st):
        ev = o.elem
        for k, sv in o.slots.items():
            ev = sv if ev is None else self.join_v(ev, sv, st)
        return ev if ev is not None else V(base.tag)


class _NoKey:
    def __repr__(self):
        return "<nokey>"


_NOKEY = _NoKey()
