"""Sensitivity battery (thorough tier).

Single-point edits of the current tree, applied as an in-memory overlay (nothing is executed, so no
scratch copy is needed).  Every *mutant* must still parse and must be flagged by the intended rule;
every *twin* (a behaviour-preserving rewrite of the same site) must stay silent.  The battery shows
that the rules are not vacuous on today's code; a battery failure is an ANALYSIS-ERROR (exit 2),
never a violation.  Edits are anchored on code fragments: when an anchor is not present in the tree
under analysis (e.g. the tree was changed) the edit is reported as not applicable.
"""

from __future__ import annotations

import ast
import concurrent.futures as cf
import os
import re
import time

from . import AnalysisError

_SPECS = []


def M(prop, name, rel, pattern, repl, expect, count=1, flags=0, also=()):
    _SPECS.append({"prop": prop, "name": name, "rel": rel, "pattern": pattern, "repl": repl, "expect": expect, "twin": False, "count": count, "flags": flags, "also": list(also)})


def T(prop, name, rel, pattern, repl, count=1, flags=0, also=()):
    _SPECS.append({"prop": prop, "name": name, "rel": rel, "pattern": pattern, "repl": repl, "expect": None, "twin": True, "count": count, "flags": flags, "also": list(also)})


F = "iodata/formats/"
# ----------------------------------------------------------------------------- C01
M("C01", "fchk-drop-signs", F + "fchk.py", r"coeffsa = data\.mo\.coeffsa\[permutation\] \* signs\.reshape\(-1, 1\)", "coeffsa = data.mo.coeffsa[permutation]", "C01-R9")
M("C01", "molden-drop-permutation", F + "molden.py", r"data\.mo\.coeffsb\[permutation\] \* signs\.reshape\(-1, 1\)", "data.mo.coeffsb * signs.reshape(-1, 1)", "C01-R9")
M("C01", "wfx-sign-before-index", F + "wfx.py", r"raw_coeffs = data\.mo\.coeffs\[permutation\] \* signs\.reshape\(-1, 1\)", "raw_coeffs = (data.mo.coeffs * signs.reshape(-1, 1))[permutation]", "C01-R9")
M("C01", "molekel-swap-target-table", F + "molekel.py", r"permutation, signs = convert_conventions\(data\.obasis, CONVENTIONS\)", "permutation, signs = convert_conventions(data.obasis, HORTON2_CONVENTIONS)", "C01-R2")
M("C01", "wfn-reversed-shell-loop", F + "wfn.py", r"for shell in data\.obasis\.shells:\n        for angmom, kind in zip", "for shell in reversed(data.obasis.shells):\n        for angmom, kind in zip", "C01-R3")
M("C01", "wfn-source-conventions-scales", F + "wfn.py", r"obasis = MolecularBasis\(shells, CONVENTIONS, data\.obasis\.primitive_normalization\)", "obasis = MolecularBasis(shells, data.obasis.conventions, data.obasis.primitive_normalization)", "C01-R4")
M("C01", "wfn-remove-pure-guard", F + "wfn.py", r"    for shell in data\.obasis\.shells:\n        if any\(kind != \"c\" for kind in shell\.kinds\):\n            raise PrepareDumpError\(\n                \"The WFN format only supports Cartesian MolecularBasis\.\", filename\n            \)\n", "", "C01-R6")
M("C01", "molden-drop-aminusb-result", F + "molden.py", r"    data = prepare_unrestricted_aminusb\(data, allow_changes, filename, \"Molden\"\)", '    prepare_unrestricted_aminusb(data, allow_changes, filename, "Molden")', "C01-R6")
M("C01", "molekel-grouping-spec", F + "molekel.py", r"\{c: \.12f\}", "{c: ,.12f}", "C01-R7")
T("C01", "fchk-rename-locals", F + "fchk.py", r"\bpermutation\b", "perm_fchk", count=0)
T("C01", "molekel-hoist-sign-column", F + "molekel.py", r"(    permutation, signs = convert_conventions\(data\.obasis, CONVENTIONS\)\n)", r"\1    signs = signs + 0\n", count=1)
# ----------------------------------------------------------------------------- C02
M("C02", "fchk-rename-label-writer", F + "fchk.py", r'_dump_real_arrays\("Mulliken Charges"', '_dump_real_arrays("Mulliken charges"', "C02-R2")
M("C02", "fchk-unrequested-label", F + "fchk.py", r'            "NPA Charges",\n', "", "C02-R2")
M("C02", "sdf-writer-drop-plus1", F + "sdf.py", r"\{iatom \+ 1:3d\}", "{iatom:3d}", "C02-R3")
M("C02", "mol2-bondtype-offset", F + "sdf.py", r"\{bondtype:3d\}", "{bondtype + 1:3d}", "C02-R3")
M("C02", "fcidump-writer-index-order", F + "fcidump.py", r"value = two_mo\[i0, i2, i1, i3\]", "value = two_mo[i0, i1, i2, i3]", "C02-R4")
M("C02", "periodic-duplicate-symbol", "iodata/periodic.py", r'    27: "Co",', '    27: "C",', "C02-R5")
M("C02", "poscar-independent-sequence", F + "poscar.py", r'print\(" "\.join\(f"\{\(data\.atnums == uatnum\)\.sum\(\):5d\}" for uatnum in uatnums\), file=f\)', 'print(" ".join(f"{(data.atnums == uatnum).sum():5d}" for uatnum in np.unique(data.atnums)), file=f)', "C02-R6")
M("C02", "molekel-none-dict", F + "molekel.py", r"    if atcharges is not None:\n        result\[\"atcharges\"\] = atcharges\n", '    result["atcharges"] = atcharges\n', "C02-R7")
M("C02", "fchk-runtype-upper", F + "fchk.py", r"items\[0\] = job_types\.get\(items\[0\], items\[0\]\.upper\(\)\)", "items[0] = items[0].upper()", "C02-R8")
T("C02", "periodic-reorder-entries", "iodata/periodic.py", r'(    1: "H",\n)(    2: "He",\n)', r"\2\1")
T("C02", "sdf-writer-commute-plus", F + "sdf.py", r"\{iatom \+ 1:3d\}", "{1 + iatom:3d}")
# ----------------------------------------------------------------------------- C03
M("C03", "pdb-shift-slice", F + "pdb.py", r"float\(line\[38:46\]\)", "float(line[39:46])", "C03-R2")
M("C03", "pdb-split-instead-of-slice", F + "pdb.py", r"resnum = int\(line\[22:26\]\)", "resnum = int(line.split()[5])", "C03-R2")
M("C03", "pdb-writer-width", F + "pdb.py", r"\{x:8\.3f\}\{y:8\.3f\}", "{x:9.3f}{y:8.3f}", "C03-R2")
M("C03", "gaussianlog-swap-index-args", F + "gaussianlog.py", r"set_four_index_element\(result, i0, i2, i1, i3, value\)", "set_four_index_element(result, i0, i1, i2, i3, value)", "C03-R3")
M("C03", "sdf-drop-minus1", F + "sdf.py", r"bonds\[ibond, 1\] = int\(words\[1\]\) - 1", "bonds[ibond, 1] = int(words[1])", "C03-R1")
M("C03", "fchk-shell-map-no-offset", F + "fchk.py", r'shell_map = fchk\["Shell to atom map"\] - 1', 'shell_map = fchk["Shell to atom map"]', "C03-R1")
M("C03", "fchk-triangle-run-length", F + "fchk.py", r"end = begin \+ irow \+ 1\n", "end = begin + irow\n", "C03-R4")
M("C03", "fchk-pack-upper", F + "fchk.py", r"mat = arr\[np\.tril_indices\(arr\.shape\[0\]\)\]", "mat = arr[np.triu_indices(arr.shape[0])]", "C03-R4")
M("C03", "gaussianlog-block-step", F + "gaussianlog.py", r"block_counter \+= 5", "block_counter += 4", "C03-R4")
M("C03", "fchk-quadrupole-perm", F + "fchk.py", r"\[\[0, 3, 4, 1, 5, 2\]\]", "[[0, 3, 4, 1, 2, 5]]", "C03-R5")
M("C03", "qchem-bad-perm", F + "qchemlog.py", r"\[\[0, 1, 3, 2, 4, 5\]\]", "[[0, 1, 3, 3, 4, 5]]", "C03-R5")
M("C03", "wfn-slice-shift", F + "wfn.py", r"occ = float\(line\[34:47\]\)", "occ = float(line[35:47])", "C03-R2")
M("C03", "wfn-template-width", F + "wfn.py", r"OCC NO =\{2:13\.7f\}", "OCC NO ={2:14.7f}", "C03-R2")
T("C03", "pdb-reorder-independent-assignments", F + "pdb.py", r"(    occupancy = float\(line\[54:60\]\)\n)(    bfactor = float\(line\[60:66\]\)\n)", r"\2\1")
T("C03", "sdf-commute-offset", F + "sdf.py", r"bonds\[ibond, 1\] = int\(words\[1\]\) - 1", "bonds[ibond, 1] = -1 + int(words[1])")
# ----------------------------------------------------------------------------- C04
M("C04", "gromacs-drop-factor", F + "gromacs.py", r"    pos \*= nanometer  # atom coordinates are in nanometers\n", "", "C04-R1")
M("C04", "sdf-swap-unit", F + "sdf.py", r"atcoords\[iatom, 0\] = float\(words\[0\]\) \* angstrom", "atcoords[iatom, 0] = float(words[0]) * nanometer", "C04-R1")
M("C04", "pdb-divide-instead", F + "pdb.py", r"float\(line\[30:38\]\) \* angstrom", "float(line[30:38]) / angstrom", "C04-R1")
M("C04", "gromacs-scale-twice", F + "gromacs.py", r"    cell \*= nanometer\n", "    cell *= nanometer\n    cell *= nanometer\n", "C04-R1")
M("C04", "locpot-drop-ev", F + "locpot.py", r'    result\["cube"\]\.data\[:\] \*= electronvolt\n', "", "C04-R1")
M("C04", "fchk-masses-writer-inverted", F + "fchk.py", r"masses = data\.atmasses / amu", "masses = data.atmasses * amu", "C04-R2")
M("C04", "xyz-column-dump-no-unit", F + "xyz.py", r'\(lambda value: f"\{value / angstrom:15\.10f\}"\)', '(lambda value: f"{value:15.10f}")', "C04-R1")
M("C04", "utils-invert-constant", "iodata/utils.py", r'angstrom: float = spc\.angstrom / spc\.value\("atomic unit of length"\)', 'angstrom: float = spc.value("atomic unit of length") / spc.angstrom', "C04-R3")
M("C04", "utils-wrong-codata-key", "iodata/utils.py", r'second: float = 1 / spc\.value\("atomic unit of time"\)', 'second: float = 1 / spc.value("atomic unit of length")', "C04-R3")
T("C04", "gromacs-aug-to-plain", F + "gromacs.py", r"    cell \*= nanometer\n", "    cell = cell * nanometer\n")
T("C04", "sdf-scale-after-loop", F + "sdf.py", r"atcoords\[iatom, 0\] = float\(words\[0\]\) \* angstrom\n        atcoords\[iatom, 1\] = float\(words\[1\]\) \* angstrom\n        atcoords\[iatom, 2\] = float\(words\[2\]\) \* angstrom\n        atnums\[iatom\] = sym2num\.get\(words\[3\]\.title\(\)\)\n", "atcoords[iatom, 0] = float(words[0])\n        atcoords[iatom, 1] = float(words[1])\n        atcoords[iatom, 2] = float(words[2])\n        atnums[iatom] = sym2num.get(words[3].title())\n    atcoords *= angstrom\n")
# ----------------------------------------------------------------------------- C05
M("C05", "cascade-delete-warn", F + "molden.py", r'        warn\(\n            LoadWarning\("Corrected for Turbomole errors in Molden/MKL file\.", lit\.filename\),\n            stacklevel=2,\n        \)\n', "", "C05-R4")
M("C05", "cascade-accept-without-check", F + "molden.py", r"    if psi4_obasis is not None and _is_normalized_properly\(\n        psi4_obasis, atcoords, coeffsa, coeffsb, norm_threshold\n    \):", "    if psi4_obasis is not None:", "C05-R2")
M("C05", "cascade-final-return", F + "molden.py", r"    raise LoadError\(\n        \"The molden or mkl file you are trying to load contains errors\. \"", '    return\n    raise LoadError(\n        "The molden or mkl file you are trying to load contains errors. "', "C05-R2")
M("C05", "cascade-store-other-basis", F + "molden.py", r'        result\["obasis"\] = turbom_obasis', '        result["obasis"] = psi4_obasis', "C05-R2")
M("C05", "fix-mutates-input", F + "molden.py", r"        fixed_shell = copy\.deepcopy\(shell\)\n        fixed_shells\.append\(fixed_shell\)\n        angmom = shell\.angmoms\[0\]\n        kind = shell\.kinds\[0\]\n        for iprim in range\(shell\.nexp\):", "        fixed_shell = shell\n        fixed_shells.append(fixed_shell)\n        angmom = shell.angmoms[0]\n        kind = shell.kinds[0]\n        for iprim in range(shell.nexp):", "C05-R6")
M("C05", "psi4-factor-length", F + "molden.py", r"factors = np\.sqrt\(\[1\] \* 3 \+ \[3\] \* 3\)", "factors = np.sqrt([1] * 3 + [3] * 2)", "C05-R5")
M("C05", "molekel-skip-cascade", F + "molekel.py", r"    _fix_molden_from_buggy_codes\(result, lit, norm_threshold\)\n    return result", "    return result", "C05-R1")
T("C05", "cascade-rename-local", F + "molden.py", r"\bturbom_obasis\b", "tm_basis", count=0)
# ----------------------------------------------------------------------------- C06
M("C06", "tf3-flip-sign", "iodata/overlap_cartpure.py", r"\[0, 0, 0\.86602540378443865, 0, 0, 0, 0, -0\.86602540378443865, 0, 0\],", "[0, 0, -0.86602540378443865, 0, 0, 0, 0, 0.86602540378443865, 0, 0],", "C06-R1")
M("C06", "tf2-change-digit", "iodata/overlap_cartpure.py", r"\[0\.86602540378443865, 0, 0, -0\.86602540378443865, 0, 0\],", "[0.86602540378443865, 0, 0, -0.86602541378443865, 0, 0],", "C06-R1")
M("C06", "drop-l2-guard", "iodata/overlap.py", r'    if obasis0\.primitive_normalization != "L2":\n        raise ValueError\("The overlap integrals are only implemented for L2 normalization\."\)\n', "", "C06-R2")
M("C06", "drop-reverse", "iodata/overlap.py", r"permutation0, signs0 = convert_conventions\(obasis0, OVERLAP_CONVENTIONS, reverse=True\)", "permutation0, signs0 = convert_conventions(obasis0, OVERLAP_CONVENTIONS)", "C06-R3")
M("C06", "drop-row-signs", "iodata/overlap.py", r"overlap = overlap\[permutation0\] \* signs0\.reshape\(-1, 1\)", "overlap = overlap[permutation0]", "C06-R3")
M("C06", "unconditional-symmetric-fill", "iodata/overlap.py", r"                if identical:\n                    # store upper triangular result\n                    overlap\[begin1:end1, begin0:end0\] = shell_overlap\.T", "                if True:\n                    # store upper triangular result\n                    overlap[begin1:end1, begin0:end0] = shell_overlap.T", "C06-R5")
M("C06", "loose-screening", "iodata/overlap.py", r"if prefactor_max > 1e-15:", "if prefactor_max > 1e-8:", "C06-R6")
T("C06", "rename-flag", "iodata/overlap.py", r"\bidentical\b", "same_basis", count=0)
# ----------------------------------------------------------------------------- C07
M("C07", "api-remove-exception-funnel", "iodata/api.py", r'        except StopIteration as exc:\n            raise LoadError\("File ended before all data was read\.", lit\) from exc\n        except Exception as exc:\n            raise LoadError\("Uncaught exception while loading file\.", lit\) from exc\n', '        except StopIteration as exc:\n            raise LoadError("File ended before all data was read.", lit) from exc\n', "C07-R1")
M("C07", "api-construct-outside-try", "iodata/api.py", r"        try:\n            return IOData\(\*\*format_module\.load_one\(lit, \*\*kwargs\)\)\n        except LoadError:", "        try:\n            data = format_module.load_one(lit, **kwargs)\n        except LoadError:", "C07-R1")
M("C07", "open-without-with", F + "json_qcschema.py", r"def load_one\(lit: LineIterator\) -> dict:\n    \"\"\"Do not edit this docstring\. It will be overwritten\.\"\"\"\n", 'def load_one(lit: LineIterator) -> dict:\n    """Do not edit this docstring. It will be overwritten."""\n    fh = open(lit.filename)\n', "C07-R2")
M("C07", "loaderror-drop-file", F + "charmm.py", r'"Title section of CRD has no ending marker \(missing bare \*\)\.", lit\n', '"Title section of CRD has no ending marker (missing bare *)."\n', "C07-R3")
M("C07", "loop-without-consumption", F + "wfn.py", r"    while len\(section\) < n:\n        line = next\(lit\)\n", "    line = next(lit)\n    while len(section) < n:\n", "C07-R4")
M("C07", "drop-validator", "iodata/iodata.py", r"        validator=attrs\.validators\.optional\(validate_shape\(None, 4\)\),\n", "", "C07-R5")
M("C07", "lineno-skip-on-stack", "iodata/utils.py", r"        self\.lineno \+= 1\n        return self\.stack\.pop\(\) if self\.stack else next\(self\.fh\)", "        if self.stack:\n            return self.stack.pop()\n        self.lineno += 1\n        return next(self.fh)", "C07-R6")
M("C07", "molden-optional-header-keys", F + "molden.py", r'occ = float\(info\["occup"\]\)', 'occ = float(info.get("occup", 0.0))', "C07-R4", also=[(r'energy = float\(info\["ene"\]\)', 'energy = float(info.get("ene", 0.0))'), (r'if info\["spin"\]\.strip', 'if info.get("spin", "alpha").strip')])
M("C07", "pdb-conditional-append", F + "pdb.py", r"            occupancies\.append\(occupancy\)\n", "            if occupancy is not None:\n                occupancies.append(occupancy)\n", "C07-R7")
T("C07", "molden-one-key-optional", F + "molden.py", r'energy = float\(info\["ene"\]\)', 'energy = float(info.get("ene", 0.0))')
T("C07", "rename-lit", "iodata/api.py", r"\blit\b", "line_iter", count=0)
# ----------------------------------------------------------------------------- C08
M("C08", "open-before-check", "iodata/api.py", r'    format_module = _select_format_module\(filename, "dump_one", fmt\)\n    try:\n        _check_required\(filename, data, format_module\.dump_one\)\n', '    format_module = _select_format_module(filename, "dump_one", fmt)\n    open(filename, "w").close()\n    try:\n        _check_required(filename, data, format_module.dump_one)\n', "C08-R1")
M("C08", "drop-dump-funnel", "iodata/api.py", r'        except DumpError:\n            raise\n        except Exception as exc:\n            raise DumpError\("Uncaught exception while dumping to a file", filename\) from exc\n', "        except DumpError:\n            raise\n", "C08-R2")
M("C08", "swallow-write-input", "iodata/api.py", r'            raise WriteInputError\(\n                "Uncaught exception while writing an input file\.", filename\n            \) from exc', "            pass", "C08-R2")
M("C08", "later-frames-unchecked", "iodata/api.py", r"            _check_required\(filename, other, format_module\.dump_many\)\n", "", "C08-R3")
M("C08", "required-removed", F + "cube.py", r'@document_dump_one\("Gaussian Cube", \["atcoords", "atnums", "cube"\]', '@document_dump_one("Gaussian Cube", ["atcoords", "atnums"]', "C08-R4")
T("C08", "guard-raises-dumperror-funnelled", F + "molden.py", r'raise PrepareDumpError\("The Molden format requires molecular orbitals\.", filename\)', 'raise DumpError("The Molden format requires molecular orbitals.", filename)')
T("C08", "molden-mo-none-guard-dropped-still-an-error", F + "molden.py", r'    if data\.mo is None:\n        raise PrepareDumpError\("The Molden format requires molecular orbitals\.", filename\)\n', "")
M("C08", "fchk-beta-aufbau-only-unrestricted", F + "fchk.py", r"        nb = int\(np\.round\(np\.sum\(data\.mo\.occsb\)\)\)\n        if not \(", "        nb = int(np.round(np.sum(data.mo.occsb)))\n        if data.mo.kind == \"unrestricted\" and not (", "C08-R5")
M("C08", "wfx-pure-guard-dropped", F + "wfx.py", r'        if any\(kind != "c" for kind in shell\.kinds\):', '        if False:', "C08-R5")
M("C08", "dumperror-drop-file", F + "molekel.py", r'raise DumpError\("A spin must be specified", f\)', 'raise DumpError("A spin must be specified")', "C08-R6")
T("C08", "rename-format-module", "iodata/api.py", r"\bformat_module\b", "fmt_mod", count=0)
# ----------------------------------------------------------------------------- C09
M("C09", "writer-store-into-extra", F + "wfx.py", r'(def dump_one\(f: TextIO, data: IOData\):\n    """Do not edit this docstring\. It will be overwritten\."""\n)', r'\1    data.extra["wfx_written"] = True\n', "C09-R1")
M("C09", "writer-inplace-scale", F + "xyz.py", r"(def dump_one\(f: TextIO, data: IOData, atom_columns=None\):\n    \"\"\"Do not edit this docstring\. It will be overwritten\.\"\"\"\n)", r"\1    data.atcoords /= angstrom\n", "C09-R1")
M("C09", "sort-caller-list", F + "molden.py", r"    for shell in sorted\(obasis\.shells, key=\(lambda s: s\.icenter\)\):", "    obasis.shells.sort(key=(lambda s: s.icenter))\n    for shell in obasis.shells:", "C09-R1")
M("C09", "prepare-copy-instead-of-identity", "iodata/prepare.py", r'    if data\.mo\.kind == "unrestricted":\n        return data\n', '    if data.mo.kind == "unrestricted":\n        return attrs.evolve(data)\n', "C09-R2")
M("C09", "prepare-drop-allow-changes-guard", "iodata/prepare.py", r'    if not allow_changes:\n        raise PrepareDumpError\(\n            message \+ "Set allow_changes to enable conversion to unrestricted\.", filename\n        \)\n', "", "C09-R3")
M("C09", "prepare-drop-warning", "iodata/prepare.py", r'    warn\(\n        PrepareDumpWarning\(message \+ "The orbitals are converted to unrestricted", filename\),\n        stacklevel=2,\n    \)\n', "", "C09-R3")
T("C09", "copy-then-mutate", F + "xyz.py", r"(def dump_one\(f: TextIO, data: IOData, atom_columns=None\):\n    \"\"\"Do not edit this docstring\. It will be overwritten\.\"\"\"\n)", r"\1    scratch = data.atcoords.copy()\n    scratch /= angstrom\n")
T("C09", "new-dict-then-store", F + "wfx.py", r'(def dump_one\(f: TextIO, data: IOData\):\n    """Do not edit this docstring\. It will be overwritten\."""\n)', r'\1    extra = {**data.extra}\n    extra["wfx_written"] = True\n')
# ----------------------------------------------------------------------------- C10
M("C10", "table-delete-label", F + "molden.py", r'    \(2, "c"\): \["xx", "yy", "zz", "xy", "xz", "yz"\],', '    (2, "c"): ["xx", "yy", "zz", "xy", "xz"],', "C10-R1")
M("C10", "table-duplicate-label", F + "wfn.py", r"    \(2, 'c'\): \['xx', 'yy', 'zz', 'xy', 'xz', 'yz'\],", "    (2, 'c'): ['xx', 'yy', 'zz', 'xy', 'xz', 'xz'],", "C10-R1")
M("C10", "table-flip-sign", F + "molden.py", r'    \(2, "c"\): \["xx", "yy", "zz", "xy", "xz", "yz"\],', '    (2, "c"): ["xx", "yy", "zz", "-xy", "xz", "yz"],', "C10-R6")
T("C10", "drop-redundant-duplicate-guard", "iodata/convert.py", r'    if len\(conv2\) != len\(set\(conv2\)\):\n        raise ValueError\("Argument conv2 contains duplicates\."\)\n', "")
M("C10", "drop-both-duplicate-guards", "iodata/convert.py", r'    if len\(conv1\) != len\(set\(conv1\)\):\n        raise ValueError\("Argument conv1 contains duplicates\."\)\n    if len\(conv2\) != len\(set\(conv2\)\):\n        raise ValueError\("Argument conv2 contains duplicates\."\)\n', "", "C10-R2")
M("C10", "sets-check-one-sided", "iodata/convert.py", r"    if set\(conv1\) != set\(conv2\):", "    if set(conv2).difference(conv1):", "C10-R2", also=[(r'    if len\(conv2\) != len\(set\(conv2\)\):\n        raise ValueError\("Argument conv2 contains duplicates\."\)\n', "")])
T("C10", "index-via-dict", "iodata/convert.py", r"permutation = \[conv1\.index\(el2\) for el2 in conv2\]", "permutation = [{el1: i for i, el1 in enumerate(conv1)}[el2] for el2 in conv2]")
M("C10", "offset-from-signs", "iodata/convert.py", r"offset = len\(permutation\)", "offset = len(signs) - 1", "C10-R4")
M("C10", "drop-sign-product", "iodata/convert.py", r"signs = \[signs1\[i\] \* sign2 for i, sign2 in zip\(permutation, signs2\)\]", "signs = [sign2 for i, sign2 in zip(permutation, signs2)]", "C10-R3")
M("C10", "index-wrong-direction", "iodata/convert.py", r"permutation = \[conv1\.index\(el2\) for el2 in conv2\]", "permutation = [conv2.index(el1) for el1 in conv1]", "C10-R3")
T("C10", "table-reorder-entries", F + "wfn.py", r"(    \(0, 'c'\): \['1'\],\n)(    \(1, 'c'\): \['x', 'y', 'z'\],\n)", r"\2\1")
# ----------------------------------------------------------------------------- C11
M("C11", "drop-natom-validator", "iodata/iodata.py", r'    atmasses: Optional\[NDArray\[float\]\] = attrs\.field\(\n        default=None,\n        converter=convert_array_to\(float\),\n        validator=attrs\.validators\.optional\(validate_shape\("natom"\)\),', '    atmasses: Optional[NDArray[float]] = attrs.field(\n        default=None,\n        converter=convert_array_to(float),\n        validator=attrs.validators.optional(validate_shape(None)),', "C11-R1")
M("C11", "natom-drop-branch", "iodata/iodata.py", r"        elif self\.atmasses is not None:\n            natom = len\(self\.atmasses\)\n", "", "C11-R1")
M("C11", "setter-keep-charge", "iodata/iodata.py", r"                    self\._nelec = self\._atcorenums\.sum\(\) - self\._charge\n                self\._charge = None", "                    self._nelec = self._atcorenums.sum() - self._charge", "C11-R4")
M("C11", "nelec-setter-writes-with-mo", "iodata/iodata.py", r'            raise TypeError\("nelec cannot be set when orbitals are present\."\)', "            self._nelec = nelec", "C11-R2")
M("C11", "charge-getter-stored", "iodata/iodata.py", r"        return self\.atcorenums\.sum\(\) - self\.nelec", "        return self._charge", "C11-R3")
# without orbitals the replay of nelec / spinpol stores what attrs already stored: behaviour-preserving since fix 5c06459
T("C11", "postinit-skip-spinpol", "iodata/iodata.py", r"            if self\._spinpol is not None:\n                self\.spinpol = self\._spinpol\n", "")
M("C11", "postinit-skip-atcorenums", "iodata/iodata.py", r"        if self\._atcorenums is not None:\n            self\.atcorenums = self\._atcorenums\n", "", "C11-R5")
T("C11", "natom-reorder-branches", "iodata/iodata.py", r"(        elif self\.atfrozen is not None:\n            natom = len\(self\.atfrozen\)\n)(        elif self\.atmasses is not None:\n            natom = len\(self\.atmasses\)\n)", r"\2\1")
# ----------------------------------------------------------------------------- C12
M("C12", "beta-slice-norbb", "iodata/orbitals.py", r"        return self\.energies\[self\.norba :\]", "        return self.energies[self.norbb :]", "C12-R3")
M("C12", "remove-generalized-guard", "iodata/orbitals.py", r'    def irrepsb\(self\):\n        """Return beta irreps\."""\n        if self\.kind == "generalized":\n            raise NotImplementedError\n', '    def irrepsb(self):\n        """Return beta irreps."""\n', "C12-R2")
M("C12", "setter-swap-difference", "iodata/orbitals.py", r"                occsa = np\.array\(self\.occsa\)\n                self\.occs = occsa \+ occsb\n                self\.occs_aminusb = occsa - occsb", "                occsa = np.array(self.occsa)\n                self.occs = occsa + occsb\n                self.occs_aminusb = occsb - occsa", "C12-R4")
M("C12", "drop-norb-validator", "iodata/orbitals.py", r'    energies: Optional\[NDArray\[float\]\] = attrs\.field\(\n        default=None,\n        converter=convert_array_to\(float\),\n        validator=attrs\.validators\.optional\(validate_shape\("norb"\)\),', '    energies: Optional[NDArray[float]] = attrs.field(\n        default=None,\n        converter=convert_array_to(float),\n        validator=attrs.validators.optional(validate_shape(None)),', "C12-R1")
M("C12", "nbasis-pure-count", "iodata/basis.py", r"                result \+= 2 \* angmom \+ 1", "                result += 2 * angmom - 1", "C12-R6")
M("C12", "spinpol-no-abs", "iodata/orbitals.py", r"        return abs\(self\.occsa\.sum\(\) - self\.occsb\.sum\(\)\)", "        return self.occsa.sum() - self.occsb.sum()", "C12-R5")
T("C12", "nbasis-commute", "iodata/basis.py", r"                result \+= 2 \* angmom \+ 1", "                result += 1 + angmom * 2")
# ----------------------------------------------------------------------------- C13
M("C13", "rewiden-handler", F + "xyz.py", r"        try:\n            line = next\(lit\)\n        except StopIteration:\n            return\n        if line\.strip\(\) == \"\":\n            return\n        lit\.back\(line\)\n        yield load_one\(lit, atom_columns\)", "        try:\n            line = next(lit)\n            if line.strip() == \"\":\n                return\n            lit.back(line)\n            yield load_one(lit, atom_columns)\n        except StopIteration:\n            return", "C13-R2")
M("C13", "api-filter-frames", "iodata/api.py", r"            for data in format_module\.load_many\(lit, \*\*kwargs\):\n                yield IOData\(\*\*data\)", "            for data in format_module.load_many(lit, **kwargs):\n                if not data:\n                    continue\n                yield IOData(**data)", "C13-R1")
M("C13", "dump-many-materialise", "iodata/api.py", r"    iter_data = iter\(iter_data\)\n", "    iter_data = iter(list(iter_data))\n", "C13-R4")
M("C13", "dump-many-reversed", F + "sdf.py", r"    for data in datas:\n        dump_one\(f, data\)", "    for data in reversed(list(datas)):\n        dump_one(f, data)", "C13-R6")
M("C13", "pdb-blank-line-ends", F + "pdb.py", r"    try:\n        while True:\n            yield load_one\(lit\)\n    except \(StopIteration, LoadError\):\n        return", "    try:\n        while True:\n            line = next(lit)\n            if line.strip() == \"\":\n                return\n            lit.back(line)\n            yield load_one(lit)\n    except (StopIteration, LoadError):\n        return", "C13-R7")
T("C13", "xyz-rename", F + "xyz.py", r"\batom_columns\b", "columns", count=0)
# ----------------------------------------------------------------------------- round-2 agent twins: evaluated clauses
M("C13", "xyz-load-many-drops-columns", F + "xyz.py", r"        yield load_one\(lit, atom_columns\)", "        yield load_one(lit)", "C13-R6")
M("C13", "mol2-load-many-edits-frame", F + "mol2.py", r"            yield load_one\(lit\)\n    except LoadError:", "            frame = load_one(lit)\n            frame.pop(\"frame\", None)\n            yield frame\n    except LoadError:", "C13-R6")
T("C13", "mol2-load-many-through-local", F + "mol2.py", r"            yield load_one\(lit\)\n    except LoadError:", "            frame = load_one(lit)\n            yield dict(frame)\n    except LoadError:")
M("C07", "base-error-swaps-attributes", "iodata/utils.py", r"        self\.filename, self\.lineno = _interpret_file_lineno\(file, lineno\)", "        self.lineno, self.filename = _interpret_file_lineno(file, lineno)", "C07-R10")
T("C07", "base-error-two-statements", "iodata/utils.py", r"        self\.filename, self\.lineno = _interpret_file_lineno\(file, lineno\)", "        where = _interpret_file_lineno(file, lineno)\n        self.filename = where[0]\n        self.lineno = where[1]")
M("C07", "base-error-str-without-line", "iodata/utils.py", r"        return _format_file_message\(super\(\)\.__str__\(\), self\.filename, self\.lineno\)", "        return _format_file_message(super().__str__(), self.filename, None)", "C07-R10")
M("C18", "cli-many-flag-store-false", "iodata/__main__.py", r'        "--many",\n        default=False,\n        action="store_true",', '        "--many",\n        default=True,\n        action="store_false",', "C18-R2")
T("C18", "cli-format-options-from-a-table", "iodata/__main__.py", r'    parser\.add_argument\(\n        "-i", "--infmt", help="Select the input format, overrides automatic detection\."\n    \)\n', '    for flags_ in (("-i", "--infmt"),):\n        parser.add_argument(*flags_, help="Select the input format, overrides automatic detection.")\n')
M("C18", "cli-set-defaults-after-table", "iodata/__main__.py", r"    return parser\.parse_args\(\)", "    parser.set_defaults(allow_changes=True)\n    return parser.parse_args()", "C18-R8")
M("C17", "decorator-swaps-lists", "iodata/docstrings.py", r"        func\.guaranteed = guaranteed\n        func\.ifpresent = ifpresent", "        func.guaranteed = ifpresent\n        func.ifpresent = guaranteed", "C17-R7")
T("C17", "factory-returns-through-local", "iodata/docstrings.py", r"    return _document_load\(LOAD_MANY_DOC_TEMPLATE, fmt, guaranteed, ifpresent, kwdocs, notes\)", "    deco_ = _document_load(LOAD_MANY_DOC_TEMPLATE, fmt, guaranteed, ifpresent=ifpresent, kwdocs=kwdocs, notes=notes)\n    return deco_")
M("C08", "dump-many-checks-dump-one-list-through-local", "iodata/api.py", r"        _check_required\(filename, first, format_module\.dump_many\)", "        op_ = format_module.dump_one\n        _check_required(filename, first, op_)", "C08-R8")
T("C08", "dump-many-checks-through-local", "iodata/api.py", r"        _check_required\(filename, first, format_module\.dump_many\)", "        op_ = format_module.dump_many\n        _check_required(filename, first, op_)")
# ----------------------------------------------------------------------------- C06: whole-function relations
M("C06", "pure-columns-reversed", "iodata/overlap.py", r"shell_overlap = np\.dot\(shell_overlap, tfs\[shell1\.angmoms\[0\]\]\.T\)", "shell_overlap = np.dot(shell_overlap, tfs[shell1.angmoms[0]].T[:, ::-1])", "C06-R5")
M("C06", "product-centre-on-first-centre", "iodata/overlap.py", r"rn = \(a0_r0 \+ a1 \* r1\) / at", "rn = (a0_r0 + a1 * r0) / at", "C06-R10")
M("C06", "second-basis-not-segmented", "iodata/overlap.py", r"        # Get a segmented basis, for simplicity\n        obasis1 = convert_to_segmented\(obasis1\)\n", "", "C06-R4")
M("C06", "segmentation-keeps-sp", "iodata/overlap.py", r"    obasis0 = convert_to_segmented\(obasis0\)\n", "    obasis0 = convert_to_segmented(obasis0, True)\n", "C06-R4")
M("C06", "missing-geometry-falls-back", "iodata/overlap.py", r"        if atcoords1 is None:\n            raise TypeError\(\n                \"When a second basis is given, a second second \"\n                \"array of atomic coordinates is expected\.\"\n            \)\n", "        if atcoords1 is None:\n            atcoords1 = atcoords0\n", "C06-R2")
M("C06", "column-offset-not-advanced-for-s", "iodata/overlap.py", r"            begin1 = end1\n", "            begin1 = end1 if shell1.nbasis > 1 else begin1\n", "C06-R14")
T("C06", "dispatch-in-a-helper", "iodata/overlap.py", r"        obasis1 = obasis0\n        atcoords1 = atcoords0\n        identical = True\n", "        obasis1, atcoords1, identical = _same(obasis0, atcoords0)\n", also=[(r"\nclass GaussianOverlap:", "\ndef _same(obasis, atcoords):\n    return obasis, atcoords, True\n\n\nclass GaussianOverlap:")])
# ----------------------------------------------------------------------------- C13-R16: two frames written, two frames read
M("C13", "sdf-terminator-only-after-last-frame", F + "sdf.py", r'    print\("\$\$\$\$", file=f\)\n', "", "C13-R16")
M("C13", "pdb-end-record-dropped", F + "pdb.py", r'    print\("END", file=f\)', '    print("TER", file=f)', "C13-R16")
M("C13", "mol2-dump-many-last-frame-first", F + "mol2.py", r"    for data in datas:\n        dump_one\(f, data\)", "    for data in sorted(datas, key=lambda d: -d.natom):\n        dump_one(f, data)", "C13-R16")
T("C13", "mol2-dump-many-through-local", F + "mol2.py", r"    for data in datas:\n        dump_one\(f, data\)", "    for frame in datas:\n        dump_one(f, data=frame)")
# ----------------------------------------------------------------------------- round-3 agent twins: evaluated clauses
M("C07", "lineiterator-back-keeps-counter", "iodata/utils.py", r"        self\.stack\.append\(line\)\n        self\.lineno -= 1", "        self.stack.append(line)", "C07-R6")
T("C07", "lineiterator-stack-alias", "iodata/utils.py", r"        return self\.stack\.pop\(\) if self\.stack else next\(self\.fh\)", "        stack = self.stack\n        if stack:\n            return stack.pop()\n        return next(self.fh)")
M("C11", "spinpol-getter-prefers-stored", "iodata/iodata.py", r"        if self\.mo is not None:\n            return self\.mo\.spinpol\n        return self\._spinpol", "        if self._spinpol is not None or self.mo is None:\n            return self._spinpol\n        return self.mo.spinpol", "C11-R2")
T("C11", "spinpol-getter-through-local", "iodata/iodata.py", r"        if self\.mo is not None:\n            return self\.mo\.spinpol\n        return self\._spinpol", "        mo = self.mo\n        if mo is None:\n            return self._spinpol\n        return mo.spinpol")
M("C11", "charge-getter-ignores-orbitals", "iodata/iodata.py", r"        return self\.atcorenums\.sum\(\) - self\.nelec\n", "        return self.atcorenums.sum() - (self._nelec if self._nelec is not None else self.nelec)\n", "C11-R3")
T("C14", "generalized-guard-through-local", "iodata/prepare.py", r'    if data\.mo\.kind == "generalized":\n        raise ValueError\("prepare_unrestricted_aminusb', '    mo = data.mo\n    if mo.kind == "generalized":\n        raise ValueError("prepare_unrestricted_aminusb')
M("C04", "vasp-direct-keyword-taken-for-cartesian", F + "chgcar.py", r'cartesian = line\[0\]\.lower\(\) in \["c", "k"\]', 'cartesian = line[0].lower() in ["c", "k", "d"]', "C04-R4")
T("C04", "vasp-mode-switch-in-a-helper", F + "chgcar.py", r'    line = next\(lit\)\n    # the 7th line can optionally indicate selective dynamics\n    if line\[0\]\.lower\(\) in \["s"\]:\n        line = next\(lit\)\n    # parse direct/cartesian switch\n    cartesian = line\[0\]\.lower\(\) in \["c", "k"\]\n', '    cartesian = _mode(lit)\n', also=[(r"\ndef _load_vasp_header\(", "\ndef _mode(lit):\n    line = next(lit)\n    if line[0].lower() in [\"s\"]:\n        line = next(lit)\n    return line[0].lower() in [\"c\", \"k\"]\n\n\ndef _load_vasp_header(")])
M("C08", "json-dispatch-table-drops-preflight-variant", F + "json_qcschema.py", r'    elif schema_name == "qcschema_basis":\n        raise NotImplementedError\(f"\{schema_name\} not yet implemented in IOData\."\)', '    elif schema_name in ("qcschema_basis", "qcschema_wavefunction"):\n        raise NotImplementedError(f"{schema_name} not yet implemented in IOData.")', "C08-R7")
# ----------------------------------------------------------------------------- batch 9 rules
M("C02", "wfx-atomic-numbers-from-core-charges", F + "wfx.py", r'_write_xml_iterator\(tag=lbs\["atnums"\], info=data\.atnums, file=f\)', '_write_xml_iterator(tag=lbs["atnums"], info=np.round(data.atcorenums).astype(int), file=f)', "C02-R33")
T("C02", "wfx-atomic-numbers-through-local", F + "wfx.py", r'    _write_xml_iterator\(tag=lbs\["atnums"\], info=data\.atnums, file=f\)', '    atomic_numbers = data.atnums\n    _write_xml_iterator(tag=lbs["atnums"], info=atomic_numbers, file=f)')
M("C04", "wfx-gradient-as-forces", F + "wfx.py", r"nuc_cart_energy_grad = list\(zip\(nuclear_names, data\.atgradient\)\)", "nuc_cart_energy_grad = list(zip(nuclear_names, -data.atgradient))", "C04-R10")
M("C03", "mwfn-core-charge-from-number-column", F + "mwfn.py", r'data\["atcorenums"\]\[atom\] = words\[3\]', 'data["atcorenums"][atom] = words[2]', "C03-R26")
M("C10", "missing-source-convention-falls-back", "iodata/convert.py", r"            conv1 = molbasis\.conventions\[key\]", "            conv1 = molbasis.conventions.get(key, HORTON2_CONVENTIONS[key])", "C10-R4")
M("C05", "molden-orbitals-split-by-count", F + "molden.py", r'        if info\["spin"\]\.strip\(\)\.lower\(\) == "alpha":', '        if len(occsa) < 2:', "C05-R16")
M("C19", "gaussian-atom-line-without-separators", "iodata/inputs/gaussian.py", r'f"\{symbol:3s\} \{x:10\.6f\} \{y:10\.6f\} \{z:10\.6f\}"', 'f"{symbol:3s}{x:11.6f}{y:11.6f}{z:11.6f}"', "C19-R2")
M("C12", "occsb-setter-drops-first-assignment", "iodata/orbitals.py", r"            self\.occs\[self\.norba :\] = occsb", "            occs = np.zeros(self.norb) if self.occs is None else self.occs\n            occs[self.norba :] = occsb", "C12-R4")
# ----------------------------------------------------------------------------- C14
M("C14", "segmented-reversed", "iodata/convert.py", r"    for shell in obasis\.shells:\n        if \(shell\.ncon == 1\)", "    for shell in reversed(obasis.shells):\n        if (shell.ncon == 1)", "C14-R1")
M("C14", "segmented-wrong-exponents", "iodata/convert.py", r"Shell\(shell\.icenter, \[angmom\], \[kind\], shell\.exponents, coeffs\.reshape\(-1, 1\)\)", "Shell(shell.icenter, [angmom], [kind], shell.exponents[::-1], coeffs.reshape(-1, 1))", "C14-R1")
M("C14", "predicate-disagree", "iodata/prepare.py", r"shell\.ncon == 1 or \(keep_sp and shell\.ncon == 2 and \(shell\.angmoms == \[0, 1\]\)\.all\(\)\)", "shell.ncon <= 2 or (keep_sp and shell.ncon == 2 and (shell.angmoms == [0, 1]).all())", "C14-R2")
M("C14", "unrestricted-swap-occs", "iodata/convert.py", r"np\.concatenate\(\[mo\.occsa, mo\.occsb\]\)", "np.concatenate([mo.occsb, mo.occsa])", "C14-R3")
M("C14", "unrestricted-copy-not-identity", "iodata/convert.py", r'    if mo\.kind == "unrestricted":\n        return mo\n', '    if mo.kind == "unrestricted":\n        return attrs.evolve(mo)\n', "C14-R3")
M("C14", "prepare-accept-generalized", "iodata/prepare.py", r'    if data\.mo\.kind == "generalized":\n        raise ValueError\("prepare_unrestricted_aminusb is not applicable to generalized orbitals\."\)\n', "", "C14-R4")
T("C14", "rename-loop-var", "iodata/convert.py", r"for angmom, kind, coeffs in zip\(shell\.angmoms, shell\.kinds, shell\.coeffs\.T\):\n                shells\.append\(\n                    Shell\(shell\.icenter, \[angmom\], \[kind\], shell\.exponents, coeffs\.reshape\(-1, 1\)\)", "for angmom, kind, column in zip(shell.angmoms, shell.kinds, shell.coeffs.T):\n                shells.append(\n                    Shell(shell.icenter, [angmom], [kind], shell.exponents, column.reshape(-1, 1))")
# ----------------------------------------------------------------------------- C16
M("C16", "function-writes-table", F + "mol2.py", r"(def dump_one\(f: TextIO, data: IOData\):\n    \"\"\"Do not edit this docstring\. It will be overwritten\.\"\"\"\n)", r'\1    num2bond[99] = "xx"\n', "C16-R1")
M("C16", "mutable-default", "iodata/convert.py", r"def convert_to_segmented\(obasis: MolecularBasis, keep_sp: bool = False\)", "def convert_to_segmented(obasis: MolecularBasis, keep_sp: bool = False, cache: dict = {})", "C16-R3")
M("C16", "clock-in-writer", F + "xyz.py", r"(def dump_one\(f: TextIO, data: IOData, atom_columns=None\):\n    \"\"\"Do not edit this docstring\. It will be overwritten\.\"\"\"\n)", r"\1    import time\n    stamp = time.time()\n", "C16-R4")
M("C16", "seterr-in-api", "iodata/api.py", r'(    format_module = _select_format_module\(filename, "load_one", fmt\)\n)', r'\1    import numpy as np\n    np.seterr(all="raise")\n', "C16-R5")
M("C16", "conventions-store", "iodata/convert.py", r"(    permutation = \[\]\n    signs = \[\]\n    for shell in molbasis\.shells:)", r'    molbasis.conventions[(0, "c")] = ["1"]\n\1', "C16-R2")
T("C16", "local-copy-of-table", F + "mol2.py", r"(def dump_one\(f: TextIO, data: IOData\):\n    \"\"\"Do not edit this docstring\. It will be overwritten\.\"\"\"\n)", r'\1    bond_names = {**num2bond, 99: "xx"}\n')
# ----------------------------------------------------------------------------- C17
M("C17", "misspell-declared-name", F + "cube.py", r'\["atcoords", "atcorenums", "atnums", "cellvecs", "cube"\]', '["atcoords", "atcorenum", "atnums", "cellvecs", "cube"]', "C17-R3")
M("C17", "guaranteed-conditional", F + "poscar.py", r'        "cellvecs": cellvecs,\n    \}', '    }', "C17-R5")
M("C17", "match-full-path", "iodata/api.py", r"fnmatch\(basename, pattern\)", "fnmatch(filename, pattern)", "C17-R1")
M("C17", "explicit-format-no-op-check", "iodata/api.py", r'        if not hasattr\(format_module, attrname\):\n            raise FileFormatError\(f"Format \{fmt\} does not support feature \{attrname\}", filename\)\n', "", "C17-R1")
M("C17", "shadowed-pattern", F + "qchemlog.py", r'PATTERNS = \["\*\.qchemlog"\]', 'PATTERNS = ["*.q.log"]', "C17-R2")
M("C17", "unknown-result-key", F + "poscar.py", r'        "title": title,\n        "atcoords": atcoords,', '        "titel": title,\n        "atcoords": atcoords,', "C17-R4")
T("C17", "reorder-declared-names", F + "poscar.py", r'\["atcoords", "atnums", "cellvecs", "title"\]', '["title", "atcoords", "cellvecs", "atnums"]')
# ----------------------------------------------------------------------------- C18
M("C18", "swap-formats", "iodata/__main__.py", r"dump_one\(load_one\(infn, fmt=infmt\), outfn, allow_changes=allow_changes, fmt=outfmt\)", "dump_one(load_one(infn, fmt=outfmt), outfn, allow_changes=allow_changes, fmt=infmt)", "C18-R1")
M("C18", "drop-allow-changes", "iodata/__main__.py", r"dump_many\(load_many\(infn, fmt=infmt\), outfn, allow_changes=allow_changes, fmt=outfmt\)", "dump_many(load_many(infn, fmt=infmt), outfn, fmt=outfmt)", "C18-R1")
M("C18", "negate-many", "iodata/__main__.py", r"    if many:\n", "    if not many:\n", "C18-R1")
M("C18", "swallow-errors", "iodata/__main__.py", r"    args = parse_args\(\)\n    convert\(args\.input, args\.output, args\.many, args\.infmt, args\.outfmt, args\.allow_changes\)", "    args = parse_args()\n    try:\n        convert(args.input, args.output, args.many, args.infmt, args.outfmt, args.allow_changes)\n    except Exception:\n        pass", "C18-R3")
M("C18", "main-swap-args", "iodata/__main__.py", r"convert\(args\.input, args\.output, args\.many, args\.infmt, args\.outfmt, args\.allow_changes\)", "convert(args.input, args.output, args.many, args.outfmt, args.infmt, args.allow_changes)", "C18-R2")
T("C18", "keyword-call", "iodata/__main__.py", r"convert\(args\.input, args\.output, args\.many, args\.infmt, args\.outfmt, args\.allow_changes\)", "convert(args.input, args.output, many=args.many, infmt=args.infmt, outfmt=args.outfmt, allow_changes=args.allow_changes)")
# ----------------------------------------------------------------------------- C19
M("C19", "filter-atoms", "iodata/inputs/common.py", r"\[atom_line\(data, iatom\) for iatom in range\(data\.natom\)\]", "[atom_line(data, iatom) for iatom in range(data.natom) if data.atnums[iatom] > 0]", "C19-R1")
M("C19", "multiply-angstrom", "iodata/inputs/orca.py", r"atcoord = data\.atcoords\[iatom\] / angstrom", "atcoord = data.atcoords[iatom] * angstrom", "C19-R2")
M("C19", "truncate-charge", "iodata/inputs/common.py", r"int\(np\.round\(data\.charge\)\)", "int(data.charge)", "C19-R3")
M("C19", "defaults-override-kwargs", "iodata/inputs/gaussian.py", r"    fields\.update\(kwargs\)\n    write_input_base", "    fields = {**kwargs, **fields}\n    write_input_base", "C19-R4")
T("C19", "kwargs-merged-twice", "iodata/inputs/gaussian.py", r'    fields = \{\n        "lot": data\.lot or "hf",', '    fields = {}\n    fields.update(kwargs)\n    fields = {\n        **fields,\n        "lot": data.lot or "hf",')
M("C19", "falsy-kwargs-dropped", "iodata/inputs/orca.py", r"    fields\.update\(kwargs\)\n", "    fields.update({k: v for k, v in kwargs.items() if v})\n", "C19-R4")
M("C19", "orca-unknown-runtype-fallback", "iodata/inputs/orca.py", r'orca_keywords\[\(data\.run_type or "energy"\)\.lower\(\)\]', 'orca_keywords.get((data.run_type or "energy").lower(), "Energy")', "C19-R5")
T("C19", "charge-round-builtin", "iodata/inputs/common.py", r"int\(np\.round\(data\.charge\)\)", "int(round(data.charge))")
M("C19", "runtype-table", "iodata/inputs/gaussian.py", r'"energy_force": "force",', '"energy_force": "freq",', "C19-R5")
M("C19", "swap-coordinates", "iodata/inputs/gaussian.py", r"\{atcoord\[0\]:10\.6f\} \{atcoord\[1\]:10\.6f\} \{atcoord\[2\]:10\.6f\}", "{atcoord[1]:10.6f} {atcoord[0]:10.6f} {atcoord[2]:10.6f}", "C19-R2")
T("C19", "rint-rounding", "iodata/inputs/common.py", r"int\(np\.round\(data\.charge\)\)", "int(np.rint(data.charge))")
# ----------------------------------------------------------------------------- C20
M("C20", "remove-symmetric-assignment", "iodata/utils.py", r"    four_index_object\[i3, i0, i1, i2\] = value\n", "", "C20-R1")
M("C20", "wrong-symmetric-assignment", "iodata/utils.py", r"    four_index_object\[i1, i0, i3, i2\] = value\n", "    four_index_object[i1, i0, i2, i3] = value\n", "C20-R1")
M("C20", "strtobool-missing-word", "iodata/utils.py", r'    "on": True,\n', "", "C20-R2")
M("C20", "volume-no-abs", "iodata/utils.py", r"return abs\(np\.linalg\.det\(cellvecs\)\)", "return np.linalg.det(cellvecs)", "C20-R3")
M("C20", "checkdm-drop-upper", "iodata/utils.py", r'    if occupations\.max\(\) > occ_max \+ eps:\n        raise ValueError\(\n            "The density matrix has eigenvalues considerably larger than "\n            "max\. error=%e" % \(occupations\.max\(\) - 1\)\n        \)\n', "", "C20-R4")
M("C20", "eigh-without-metric", "iodata/utils.py", r"evals, evecs = eigh\(sds, overlap\)", "evals, evecs = eigh(sds)", "C20-R5")
T("C20", "reorder-assignments", "iodata/utils.py", r"(    four_index_object\[i2, i3, i0, i1\] = value\n)(    four_index_object\[i3, i2, i1, i0\] = value\n)", r"\2\1")
T("C20", "reorder-strtobool", "iodata/utils.py", r'(    "y": True,\n)(    "yes": True,\n)', r"\2\1")


# ----------------------------------------------------------------------------- additions (second round)
M("C01", "molden-tag-5d10f-as-5d", F + "molden.py", r'f\.write\("\[5D10F\]\\n"\)', 'f.write("[5D]\\\\n")', "C01-R8")
M("C01", "molden-reader-5d-only-d", F + "molden.py", r'            pure_angmoms\.add\(2\)\n            pure_angmoms\.add\(3\)\n', '            pure_angmoms.add(2)\n', "C01-R8")
T("C01", "molden-tags-elif-to-nested", F + "molden.py", r'    elif angmom_kinds\[3\] == "p":\n        f\.write\("\[7F\]\\n"\)', '    else:\n        if angmom_kinds[3] == "p":\n            f.write("[7F]\\\\n")')
M("C02", "xyz-dump-many-drops-columns", F + "xyz.py", r"dump_one\(f, data, atom_columns\)", "dump_one(f, data)", "C02-R9")
M("C02", "fchk-writer-no-transpose", F + "fchk.py", r'_dump_real_arrays\("Alpha MO coefficients", coeffsa\.transpose\(\)\.flatten\(\), f\)', '_dump_real_arrays("Alpha MO coefficients", coeffsa.flatten(), f)', "C02-R10")
M("C02", "fchk-reader-no-transpose", F + "fchk.py", r'np\.copy\(fchk\["Beta MO coefficients"\]\.reshape\(norbb, nbasis\)\.T\)', 'np.copy(fchk["Beta MO coefficients"].reshape(nbasis, norbb))', "C02-R10")
M("C02", "json-geometry-fortran-order", F + "json_qcschema.py", r'list\(data\.atcoords\.flatten\(\)\)', 'list(data.atcoords.flatten(order="F"))', "C02-R10")
M("C02", "cube-nditer", F + "cube.py", r"for value in cube_data\.flat:", "for value in np.nditer(cube_data):", "C02-R11")
T("C02", "cube-ravel-instead-of-flat", F + "cube.py", r"for value in cube_data\.flat:", "for value in cube_data.ravel():")
T("C02", "fchk-writer-T-ravel", F + "fchk.py", r'coeffsa\.transpose\(\)\.flatten\(\)', 'coeffsa.T.ravel()')
M("C03", "extxyz-lattice-fortran", F + "extxyz.py", r"\.reshape\(\[3, 3\]\) \* angstrom", '.reshape([3, 3], order="F") * angstrom', "C03-R7")
M("C03", "wfx-mo-c-order", F + "wfx.py", r'result\["mo_coeffs"\]\.reshape\(result\["num_primitives"\], -1, order="F"\)', 'result["mo_coeffs"].reshape(result["num_primitives"], -1)', "C03-R7")
M("C03", "molden-coeffs-no-transpose", F + "molden.py", r"    coeffsa = np\.array\(coeffsa\)\.T\n", "    coeffsa = np.array(coeffsa)\n", "C03-R7")
M("C03", "vasp-direct-transposed-cell", F + "chgcar.py", r"np\.dot\(np\.array\(atcoords\), cellvecs\)", "np.dot(np.array(atcoords), cellvecs.T)", "C03-R7")
M("C03", "gamess-hessian-by-label", F + "gamess.py", r"            tmp\[counter\] = float\(line\[j \* 15 : \(j \+ 1\) \* 15\]\)", "            hessian[int(line[:2]) - 1, j] = float(line[j * 15 : (j + 1) * 15])", "C03-R8", also=[(r"        line = line\[5:-1\]\n", "        lab = line\n        line = line[5:-1]\n")])
T("C03", "wfx-mo-transpose-instead-of-order", F + "wfx.py", r'result\["mo_coeffs"\]\.reshape\(result\["num_primitives"\], -1, order="F"\)', 'result["mo_coeffs"].reshape(-1, result["num_primitives"]).T')
M("C04", "vasp-mode-drop-k", F + "chgcar.py", r'cartesian = line\[0\]\.lower\(\) in \["c", "k"\]', 'cartesian = line[0].lower() in ["c"]', "C04-R4")
M("C04", "vasp-mode-add-d", F + "chgcar.py", r'cartesian = line\[0\]\.lower\(\) in \["c", "k"\]', 'cartesian = line[0].lower() not in ["d"]', "C04-R4")
T("C04", "vasp-mode-string-membership", F + "chgcar.py", r'cartesian = line\[0\]\.lower\(\) in \["c", "k"\]', 'cartesian = line[0] in "cCkK"')
M("C04", "cube-cellvecs-wrong-axis", F + "cube.py", r"cellvecs = axes \* shape\.reshape\(-1, 1\)", "cellvecs = axes * shape", "C04-R5")
M("C04", "vasp-axes-wrong-axis", F + "chgcar.py", r"axes=cellvecs / shape\.reshape\(-1, 1\)", "axes=cellvecs / shape", "C04-R5")
T("C04", "cube-cellvecs-newaxis", F + "cube.py", r"cellvecs = axes \* shape\.reshape\(-1, 1\)", "cellvecs = axes * shape[:, np.newaxis]")
M("C05", "normalize-skips-uncontracted", F + "molden.py", r"    for shell in obasis\.shells:\n        shell_obasis = MolecularBasis\(", "    for shell in obasis.shells:\n        if shell.nexp == 1:\n            fixed_shells.append(copy.deepcopy(shell))\n            continue\n        shell_obasis = MolecularBasis(", "C05-R7")
M("C06", "screening-last-exponent", "iodata/overlap.py", r"a0_min = np\.min\(shell0\.exponents\)", "a0_min = shell0.exponents[-1]", "C06-R6")
T("C06", "screening-min-method", "iodata/overlap.py", r"a0_min = np\.min\(shell0\.exponents\)", "a0_min = shell0.exponents.min()")
M("C12", "spinpol-other-predicate", "iodata/orbitals.py", r"                if \(self\.occs == self\.occs\.astype\(int\)\)\.all\(\):\n                    # restricted open-shell HF/KS\n                    nbeta", "                if np.isclose(self.occs, np.rint(self.occs)).all():\n                    # restricted open-shell HF/KS\n                    nbeta", "C12-R5")
M("C12", "nbasis-pure-from-p", "iodata/basis.py", r'kind == "p" and angmom >= 2', 'kind == "p" and angmom >= 1', "C12-R6")
T("C12", "nbasis-guard-rewritten", "iodata/basis.py", r'kind == "p" and angmom >= 2', 'kind == "p" and angmom > 1')
M("C13", "sdf-frame-parser-back-inside-try", F + "sdf.py", r"        yield load_one\(lit\)\n", "        try:\n            yield load_one(lit)\n        except StopIteration:\n            return\n", "C13-R2")
M("C13", "gro-probe-skips-nonblank-lines", F + "gromacs.py", r'            while line\.strip\(\) == "":', '            while not line.startswith("t="):', "C13-R2")
T("C13", "sdf-probe-not-strip", F + "sdf.py", r'            while line\.strip\(\) == "":', '            while not line.strip():')
M("C07", "sdf-restore-only-some-lines", F + "sdf.py", r"        for skipped_line in reversed\(skipped\):\n            lit\.back\(skipped_line\)\n", "        for skipped_line in reversed(skipped):\n            lit.back(skipped_line)\n            lit.back(skipped_line)\n", "C07-R4")
M("C13", "xyz-zip-counted-loop", F + "xyz.py", r"    for iatom in range\(natom\):\n        words = next\(lit\)\.split\(\)", "    for iatom, line in zip(range(natom), lit):\n        words = line.split()", "C13-R8")
M("C16", "lineiterator-class-level-stack", "iodata/utils.py", r"class LineIterator:\n", "class LineIterator:\n    stack: list = []\n", "C16-R3")
M("C18", "main-swallows-loaderror", "iodata/__main__.py", r"    convert\(args\.input, args\.output, args\.many, args\.infmt, args\.outfmt, args\.allow_changes\)\n", "    try:\n        convert(args.input, args.output, args.many, args.infmt, args.outfmt, args.allow_changes)\n    except Exception as exc:\n        print(exc)\n", "C18-R3")
M("C18", "main-returns-status-guard-discards", "iodata/__main__.py", r"    convert\(args\.input, args\.output, args\.many, args\.infmt, args\.outfmt, args\.allow_changes\)\n", "    try:\n        convert(args.input, args.output, args.many, args.infmt, args.outfmt, args.allow_changes)\n    except Exception as exc:\n        print(exc)\n        return 1\n    return 0\n", "C18-R3")
T("C18", "main-reraises", "iodata/__main__.py", r"    convert\(args\.input, args\.output, args\.many, args\.infmt, args\.outfmt, args\.allow_changes\)\n", "    try:\n        convert(args.input, args.output, args.many, args.infmt, args.outfmt, args.allow_changes)\n    except Exception:\n        raise\n")
M("C19", "write-input-narrow-handler", "iodata/api.py", r"            input_module\.write_input\(fh, data, template, atom_line, \*\*kwargs\)\n        except Exception as exc:", "            input_module.write_input(fh, data, template, atom_line, **kwargs)\n        except (LookupError, TypeError, ValueError) as exc:", "C19-R6")
M("C20", "volume-xy-block", "iodata/utils.py", r"return np\.linalg\.norm\(np\.cross\(cellvecs\[0\], cellvecs\[1\]\)\)", "return abs(np.linalg.det(cellvecs[:, :2]))", "C20-R3")


# ----------------------------------------------------------------------------- additions (third round)
M("C02", "fchk-nelec-truncated", F + "fchk.py", r"int\(np\.round\(data\.nelec\)\)", "int(data.nelec)", "C02-R13")
M("C02", "fcidump-float-into-d", F + "fcidump.py", r"nelec = int\(round\(data\.nelec or 0\)\)", "nelec = data.nelec or 0", "C02-R13")
M("C02", "mol2-bond-fields-touch", F + "mol2.py", r"\{i\+1:6d\} \{bond\[0\]\+1:4d\} \{bond\[1\]\+1:4d\}", "{i+1:6d}{bond[0]+1:5d}{bond[1]+1:5d}", "C02-R14")
M("C02", "json-writer-converts-masses", F + "json_qcschema.py", r'molecule_dict\["masses"\] = data\.atmasses\.tolist\(\)', 'molecule_dict["masses"] = (data.atmasses / amu).tolist()', "C02-R12", also=[(r"from \.\.utils import ", "from ..utils import amu, ")])
M("C03", "molden-tags-applied-inside-section-loop", F + "molden.py", r"            data_alpha, data_beta = _load_helper_coeffs\(lit\)\n", "            for shell in obasis.shells:\n                if shell.angmoms[0] in pure_angmoms:\n                    shell.kinds[0] = \"p\"\n            data_alpha, data_beta = _load_helper_coeffs(lit)\n", "C03-R10")
M("C05", "norm-on-sqrt-scale", F + "molden.py", r"norm = np\.dot\(vec, np\.dot\(olp, vec\)\)", "norm = np.sqrt(np.dot(vec, np.dot(olp, vec)))", "C05-R8")
M("C05", "cascade-swallows-final-error", F + "molden.py", r"                result\[\"mo\"\]\.coeffsb\[:\] = coeffsb_psi4\n            return\n", "                result[\"mo\"].coeffsb[:] = coeffsb_psi4\n        return\n", "C05-R9")
M("C05", "turbomole-first-primitive-only", F + "molden.py", r"        for iprim in range\(shell\.nexp\):\n", "        for iprim in range(1):\n", "C05-R10")
M("C06", "parity-shortcut", "iodata/overlap.py", r"            rij = r0 - r1\n", "            if (shell0.angmoms[0] + shell1.angmoms[0]) % 2 == 1 and np.allclose(r0, r1):\n                begin1 = end1\n                continue\n            rij = r0 - r1\n", "C06-R7")
M("C07", "funnel-handler-returns", "iodata/api.py", r"        except StopIteration:\n            return\n", "        except RuntimeError as exc:\n            if isinstance(exc.__cause__, StopIteration):\n                return\n            raise LoadError(\"Uncaught exception while loading file.\", lit) from exc\n", "C07-R1")
M("C07", "decorator-changes-warning-filters", "iodata/api.py", r"            with warnings\.catch_warnings\(record=True\) as warning_list:\n", "            with warnings.catch_warnings(record=True) as warning_list:\n                warnings.simplefilter(\"ignore\")\n", "C07-R1")
M("C10", "wfn-order-cached-per-angmom", F + "wfn.py", r"        batch_primitive_names = \[\n            PRIMITIVE_NAMES\[type_assignments\[ibasis \+ ifn \* ncon\]\] for ifn in range\(ncart\)\n        \]\n", "        batch_primitive_names = _orders.get(angmom)\n        if batch_primitive_names is None:\n            batch_primitive_names = [\n                PRIMITIVE_NAMES[type_assignments[ibasis + ifn * ncon]] for ifn in range(ncart)\n            ]\n            _orders[angmom] = batch_primitive_names\n", "C10-R7", also=[(r"    permutation = np\.zeros\(nbasis, dtype=int\)\n", "    permutation = np.zeros(nbasis, dtype=int)\n    _orders = {}\n")])
M("C12", "beta-slice-from-end", "iodata/orbitals.py", r"        return self\.occs\[self\.norba :\]", "        return self.occs[-self.norbb :]", "C12-R3")
M("C13", "fchk-lazy-zip", F + "fchk.py", r"        trajectory = list\(\n            zip\(", "        trajectory = (\n            zip(", "C13-R9")
M("C13", "pdb-ter-ends-frame", F + "pdb.py", r"        if line\.startswith\(\"END\"\) and molecule_found:\n            end_reached = True\n", "        if line.startswith((\"END\", \"TER\")) and molecule_found:\n            end_reached = True\n", "C13-R10")
M("C14", "segmented-hardcodes-l2", "iodata/convert.py", r"    return attrs\.evolve\(obasis, shells=shells\)", "    return MolecularBasis(shells, obasis.conventions, \"L2\")", "C14-R1")
M("C14", "unrestricted-energies-guarded-by-coeffs", "iodata/convert.py", r"None if mo\.energies is None else np\.concatenate\(\[mo\.energies, mo\.energies\]\)", "None if mo.coeffs is None else np.concatenate([mo.energies, mo.energies])", "C14-R3")
M("C16", "passthrough-in-set-order", F + "json_qcschema.py", r"    for key in parsed_keys:\n        del result\[key\]\n", "    result = {key: result[key] for key in set(result).difference(keys)}\n", "C16-R4")
M("C16", "validators-disabled", F + "wfn.py", r"    permutation = np\.zeros\(nbasis, dtype=int\)\n", "    permutation = np.zeros(nbasis, dtype=int)\n    attrs.validators.set_disabled(True)\n", "C16-R5", also=[(r"^import numpy as np\n", "import attrs\nimport numpy as np\n")], flags=re.M)
M("C17", "selection-matches-anywhere", "iodata/api.py", r"any\(fnmatch\(basename, pattern\) for pattern in format_module\.PATTERNS\)", "any(fnmatch(basename, \"*\" + pattern) for pattern in format_module.PATTERNS)", "C17-R1")
M("C18", "library-absorbs-arithmetic-error", F + "molden.py", r"        fixed_shell\.coeffs\[:\] /= np\.sqrt\(olpdiag\)\n", "        try:\n            fixed_shell.coeffs[:] /= np.sqrt(olpdiag)\n        except ArithmeticError:\n            pass\n", "C18-R6")
M("C18", "passthrough-in-set-order", F + "json_qcschema.py", r"    for key in parsed_keys:\n        del result\[key\]\n", "    result = {key: result[key] for key in set(result).difference(keys)}\n", "C18-R7")
M("C19", "orca-atom-line-dropped", "iodata/inputs/orca.py", r"    if template is None:\n        template = default_template\n    if atom_line is None:\n        atom_line = default_atom_line\n", "    if template is None:\n        template, atom_line = default_template, default_atom_line\n    elif atom_line is None:\n        atom_line = default_atom_line\n", "C19-R4")
M("C20", "eigh-overwrites-overlap", "iodata/utils.py", r"eigh\(sds, overlap\)", "eigh(sds, overlap, overwrite_b=True)", "C20-R5")
# ----------------------------------------------------------------------------- additions (fifth round, audit-driven)
M("C03", "fcidump-one-electron-index-not-shifted", F + "fcidump.py", r"            ii = int\(words\[1\]\) - 1\n            ij = int\(words\[2\]\) - 1\n            one_mo\[ii, ij\] = value", "            ii = int(words[1])\n            ij = int(words[2]) - 1\n            one_mo[ii, ij] = value", "C03-R1")
M("C03", "gro-box-transposed", F + "gromacs.py", r"        cell\[0, 1\] = float\(words\[3\]\)\n        cell\[0, 2\] = float\(words\[4\]\)\n        cell\[1, 0\] = float\(words\[5\]\)", "        cell[1, 0] = float(words[3])\n        cell[2, 0] = float(words[4])\n        cell[0, 1] = float(words[5])", "C03-R13")
M("C03", "json-stdout-into-stderr", F + "json_qcschema.py", r'        extra_dict\["stdout"\] = result\["stdout"\]', '        extra_dict["stderr"] = result["stdout"]', "C03-R14")
M("C03", "mol2-charge-only-with-nine-fields", F + "mol2.py", r"        if len\(words\) >= 9:", "        if len(words) == 9:", "C03-R15")
M("C03", "pdb-occupancy-bfactor-swapped", F + "pdb.py", r"    occupancy = float\(line\[54:60\]\)\n    bfactor = float\(line\[60:66\]\)", "    occupancy = float(line[60:66])\n    bfactor = float(line[54:60])", "C03-R16")
M("C03", "pdb-element-not-title-cased", F + "pdb.py", r"symbol = line\[76:78\]\.strip\(\)\.title\(\)", "symbol = line[76:78].strip()", "C03-R16")
M("C03", "pdb-conect-by-position", F + "pdb.py", r'bonds\.append\(\[serials\[serial0\], serials\[serial1\], bond2num\["un"\]\]\)', 'bonds.append([serial0 - 1, serial1 - 1, bond2num["un"]])', "C03-R6")
M("C01", "molekel-beta-irreps-at-norbb", F + "molekel.py", r"data\.mo\.irreps\[data\.mo\.norba :\]", "data.mo.irreps[norb:]", "C01-R14")
M("C01", "molekel-occupations-block-of-four", F + "molekel.py", r'        occs = " "\.join\(\[f"  \{o: \.7f\}" for o in occ\[j : j \+ 5\]\]\)', '        occs = " ".join([f"  {o: .7f}" for o in occ[j : j + 4]])', "C01-R14")
M("C01", "molekel-ecp-objects-accepted", F + "molekel.py", r"    if data\.atcorenums is not None and not np\.array_equal\(data\.atcorenums, data\.atnums\):", "    if False:", "C01-R6")
M("C07", "message-without-line-number", "iodata/utils.py", r'    return f"\{message\} \(\{filename\}:\{lineno\}\)"', '    return f"{message} ({filename})"', "C07-R10")
M("C07", "lineiterator-lineno-not-used", "iodata/utils.py", r"        if lineno is None:\n            lineno = file\.lineno\n        return file\.filename, lineno", "        return file.filename, lineno", "C07-R10")
M("C19", "gaussian-template-multiplicity-first", "iodata/inputs/gaussian.py", r"\{charge\} \{spinmult\}", "{spinmult} {charge}", "C19-R7")
M("C19", "orca-template-without-terminator", "iodata/inputs/orca.py", r"\{geometry\}\n\*\"\"\"", '{geometry}\n"""', "C19-R7")
M("C19", "rendered-text-not-written-to-file", "iodata/inputs/common.py", r"    print\(template\.format\(\*\*fields\), file=fh\)", "    print(template.format(**fields))", "C19-R8")
M("C19", "api-swaps-template-and-atom-line", "iodata/api.py", r"input_module\.write_input\(fh, data, template, atom_line, \*\*kwargs\)", "input_module.write_input(fh, data, atom_line, template, **kwargs)", "C19-R8")
M("C20", "check-dm-closed-upper-bound", "iodata/utils.py", r"    if occupations\.max\(\) > occ_max \+ eps:", "    if occupations.max() >= occ_max + eps:", "C20-R4")
M("C20", "check-dm-default-occ-max-two", "iodata/utils.py", r"eps: float = 1e-4, occ_max: float = 1\.0\)", "eps: float = 1e-4, occ_max: float = 2.0)", "C20-R4")
M("C20", "strtobool-falsy-words-raise", "iodata/utils.py", r"    if result is None:\n        raise ValueError\(f\"'\{value\}' cannot be converted to boolean\"\)", "    if not result:\n        raise ValueError(f\"'{value}' cannot be converted to boolean\")", "C20-R2")
M("C20", "naturals-from-ds-instead-of-sds", "iodata/utils.py", r"sds = np\.dot\(overlap\.T, np\.dot\(dm, overlap\)\)", "sds = np.dot(dm, overlap)", "C20-R5")
M("C20", "naturals-vectors-reversed-values-not", "iodata/utils.py", r"    coeffs = evecs\[:, : coeffs\.shape\[1\]\]", "    coeffs = evecs[:, ::-1]", "C20-R5")
T("C20", "naturals-both-reversed", "iodata/utils.py", r"    coeffs = evecs\[:, : coeffs\.shape\[1\]\]\n    occs = evals\n", "    coeffs = evecs[:, ::-1]\n    occs = evals[::-1]\n")
M("C09", "api-drops-converted-object", "iodata/api.py", r"            data = format_module\.prepare_dump\(data, allow_changes, filename\)", "            format_module.prepare_dump(data, allow_changes, filename)", "C09-R5")
M("C09", "api-allow-changes-default-true", "iodata/api.py", r"(def dump_one\((?:.|\n)*?)allow_changes: bool = False", "\\1allow_changes: bool = True", "C09-R6")
M("C09", "api-always-allows-changes-for-later-frames", "iodata/api.py", r"format_module\.prepare_dump\(other, allow_changes, filename\)", "format_module.prepare_dump(other, True, filename)", "C09-R6")
M("C08", "dump-many-checks-dump-one-list", "iodata/api.py", r"_check_required\(filename, first, format_module\.dump_many\)", "_check_required(filename, first, format_module.dump_one)", "C08-R8")
M("C08", "xyz-dump-many-requires-less", F + "xyz.py", r'@document_dump_many\("XYZ", \["atcoords", "atnums"\]', '@document_dump_many("XYZ", ["atcoords"]', "C08-R8")

M("C07", "bonds-validator-loosened", "iodata/iodata.py", r"(bonds: Optional\[NDArray\[int\]\] = attrs\.field\((?:.|\n)*?)validate_shape\(None, 3\)", "\\1validate_shape(None, None)", "C07-R5")
M("C07", "validate-shape-zero-is-wildcard", "iodata/attrutils.py", r"                if es is None:\n                    continue", "                if not es:\n                    continue", "C07-R5")
M("C04", "gro-positions-partly-scaled", F + "gromacs.py", r"    pos \*= nanometer  # atom", "    pos[:, :2] *= nanometer  # atom", "C04-R1")

for _p, _r15, _r16 in (("C01", "R15", "R16"), ("C02", "R18", "R19")):
    M(_p, "wfn-mo-header-occ-energy-swapped", F + "wfn.py", r"FMT_MOS\.format\(iorb \+ 1, 0, occ, energy\)", "FMT_MOS.format(iorb + 1, 0, energy, occ)", f"{_p}-{_r16}")
    M(_p, "molden-beta-block-with-alpha-energies", F + "molden.py", r"            data\.mo\.energiesb,\n", "            data.mo.energiesa,\n", f"{_p}-{_r15}")
    M(_p, "molden-occup-and-ene-swapped", F + "molden.py", r'f\.write\(f" Occup= \{occs\[ifn\]:\.17e\}\\n"\)', 'f.write(f" Occup= {energies[ifn]:.17e}\\\\n")', f"{_p}-{_r15}")
M("C10", "wfn-primitive-names-d-block-reversed", F + "wfn.py", r"operator\.iadd, \[CONVENTIONS\[\(angmom, \"c\"\)\] for angmom in range\(6\)\], \[\]", 'operator.iadd, [CONVENTIONS[(angmom, "c")][::-1] for angmom in range(6)], []', "C10-R1")
M("C10", "convert-conventions-reverse-default-true", "iodata/convert.py", r"new_conventions: dict\[str, list\[str\]\], reverse=False", "new_conventions: dict[str, list[str]], reverse=True", "C10-R3")
M("C17", "gaussianlog-claims-out-files", F + "gaussianlog.py", r'PATTERNS = \["\*\.log"\]', 'PATTERNS = ["*.log", "*.out"]', "C17-R8")
M("C17", "registry-drops-modules-with-empty-patterns", "iodata/api.py", r'            if hasattr\(format_module, "PATTERNS"\):', '            if getattr(format_module, "PATTERNS", None):', "C17-R9")

M("C06", "kernel-parity-step-from-zero", "iodata/overlap.py", r"for j in range\(i % 2, n2 \+ 1, 2\):", "for j in range(0, n2 + 1, 2):", "C06-R11")
M("C06", "kernel-power-of-two-a-doubled", "iodata/overlap.py", r"two_at \*\* \(m / 2\)", "two_at ** m", "C06-R11")
M("C06", "kernel-binomial-of-wrong-function", "iodata/overlap.py", r"self\.binomials\[n2\]\[j\]", "self.binomials[n1][j]", "C06-R11")
M("C06", "kernel-double-factorials-shifted", "iodata/overlap.py", r"        facts\.insert\(0, 1\)\n", "", "C06-R11")
M("C06", "normalisation-power-halved", "iodata/overlap.py", r"\(2 \* alpha / np\.pi\) \*\* 1\.5", "(2 * alpha / np.pi) ** 0.75", "C06-R12")
M("C06", "normalisation-two-alpha-per-power", "iodata/overlap.py", r"\(4 \* alpha\) \*\* sum\(n\)", "(2 * alpha) ** sum(n)", "C06-R12")
M("C11", "charge-setter-sign-slip", "iodata/iodata.py", r"            self\.nelec = self\.atcorenums\.sum\(\) - charge\n", "            self.nelec = self.atcorenums.sum() + charge\n", "C11-R7")
M("C11", "natom-from-columns", "iodata/iodata.py", r"            natom = len\(self\.atcoords\)", "            natom = self.atcoords.shape[1]", "C11-R1")
M("C12", "beta-setter-slices-from-end", "iodata/orbitals.py", r"(    @occsb\.setter(?:.|\n)*?)self\.occs\[self\.norba :\] = occsb", "\\1self.occs[-self.norbb :] = occsb", "C12-R4")
M("C12", "nbasis-generalized-not-halved", "iodata/orbitals.py", r"            return self\.coeffs\.shape\[0\] // 2", "            return self.coeffs.shape[0]", "C12-R2")

M("C09", "xyz-writer-rounds-in-place", F + "xyz.py", r"(def dump_one\(f: TextIO, data: IOData, atom_columns=None\):\n    \"\"\"[^\n]*\"\"\"\n)", "\\1    data.atcoords.round(6, out=data.atcoords)\n", "C09-R1")
M("C09", "xyz-writer-scales-a-view", F + "xyz.py", r"(def dump_one\(f: TextIO, data: IOData, atom_columns=None\):\n    \"\"\"[^\n]*\"\"\"\n)", "\\1    _c = np.array(data.atcoords, copy=False)\n    _c *= 1.0\n", "C09-R1")

M("C16", "selector-caches-on-function-object", "iodata/api.py", r"(def _select_format_module\((?:.|\n)*?\n    \"\"\"\n)", "\\1    _select_format_module.last = filename\n", "C16-R1")

M("C18", "cli-positionals-swapped", "iodata/__main__.py", r'    parser\.add_argument\("input", help="The input file\."\)\n    parser\.add_argument\("output", help="The output file\."\)\n', '    parser.add_argument("output", help="The output file.")\n    parser.add_argument("input", help="The input file.")\n', "C18-R8")
M("C18", "cli-short-flag-reused", "iodata/__main__.py", r'"-i", "--infmt"', '"-o", "--infmt"', "C18-R8")
M("C18", "cli-allow-changes-default-set-behind-table", "iodata/__main__.py", r"    return parser\.parse_args\(\)", "    parser.set_defaults(allow_changes=True)\n    return parser.parse_args()", "C18-R8")
M("C18", "cli-edits-loaded-object", "iodata/__main__.py", r"        dump_one\(load_one\(infn, fmt=infmt\), outfn, allow_changes=allow_changes, fmt=outfmt\)", '        data = load_one(infn, fmt=infmt)\n        data.title = "converted"\n        dump_one(data, outfn, allow_changes=allow_changes, fmt=outfmt)', "C18-R8")
T("C18", "cli-loaded-object-in-a-local", "iodata/__main__.py", r"        dump_one\(load_one\(infn, fmt=infmt\), outfn, allow_changes=allow_changes, fmt=outfmt\)", "        data = load_one(infn, fmt=infmt)\n        dump_one(data, outfn, allow_changes=allow_changes, fmt=outfmt)")

M("C08", "write-funnel-returns-early-on-broken-pipe", "iodata/api.py", r'(            format_module\.dump_one\(f, data, \*\*kwargs\)\n        except DumpError:\n            raise\n        except Exception as exc:\n)', "\\1            if isinstance(exc, BrokenPipeError):\n                return data\n", "C08-R2")
M("C08", "output-opened-in-append-mode", "iodata/api.py", r'(            data = format_module\.prepare_dump(?:.|\n)*?)    with open\(filename, "w"\) as f:', '\\1    with open(filename, "a") as f:', "C08-R1")

M("C08", "writer-raises-prepare-error", F + "xyz.py", r"(    if atom_columns is None:\n        atom_columns = DEFAULT_ATOM_COLUMNS\n    # Write the header)", "    if atom_columns is not None and len(atom_columns) == 0:\n        raise PrepareDumpError(\"atom_columns is empty\", f)\n\\1", "C08-R9", also=[(r"from \.\.utils import ", "from ..utils import PrepareDumpError, ")])

M("C07", "molekel-pushback-then-continue", F + "molekel.py", r"(            if len\(words\) != 2:\n                lit\.back\(line\)\n                )break", "\\1continue", "C07-R4")

M("C07", "decorator-returns-in-finally", "iodata/api.py", r"        finally:\n            for warning in warning_list:\n                warnings\.warn\(warning\.message, warning\.category, stacklevel=2\)\n        return result\n", "        finally:\n            for warning in warning_list:\n                warnings.warn(warning.message, warning.category, stacklevel=2)\n            return result\n", "C07-R1", also=[(r"        warning_list = \[\]\n", "        warning_list = []\n        result = None\n")])
M("C07", "lineiterator-pops-oldest-pushback", "iodata/utils.py", r"self\.stack\.pop\(\) if self\.stack", "self.stack.pop(0) if self.stack", "C07-R6")

M("C03", "wfn-y-coordinate-slice-off-by-one", F + "wfn.py", r"atcoords\[atom, 1\] = float\(line\[36:48\]\)", "atcoords[atom, 1] = float(line[37:48])", "C03-R17")
M("C03", "charmm-resno-and-resid-swapped", F + "charmm.py", r"resnums\.append\(int\(words\[1\]\)\)", "resnums.append(int(words[8]))", "C03-R18")
M("C03", "gaussianlog-mirror-store-dropped", F + "gaussianlog.py", r"                result\[j \+ block_counter, i \+ block_counter\] = value\n", "", "C03-R19")
M("C03", "gaussianlog-row-label-taken-as-value", F + "gaussianlog.py", r"words = next\(lit\)\.split\(\)\[1:\]", "words = next(lit).split()", "C03-R19")

M("C02", "pdb-writer-misspells-occupancies-key", F + "pdb.py", r'data\.extra\.get\("occupancies", None\)', 'data.extra.get("occupancy", None)', "C02-R20")
M("C02", "mol2-reader-renames-charge-key", F + "mol2.py", r'"mol2charges": atchgs', '"mol2": atchgs', "C02-R20")

M("C02", "fchk-gradient-flattened-in-fortran-order", F + "fchk.py", r"data\.atgradient\.flatten\(\)", 'data.atgradient.flatten(order="F")', "C02-R21")
M("C02", "fchk-hessian-strict-lower-triangle", F + "fchk.py", r"data\.athessian\[np\.tril_indices\(data\.athessian\.shape\[0\]\)\]", "data.athessian[np.tril_indices(data.athessian.shape[0], -1)]", "C02-R21")
M("C02", "fchk-triangle-reader-without-mirror", F + "fchk.py", r"        result\[: irow \+ 1, irow\] = triangle\[begin:end\]\n", "", "C02-R21")

M("C03", "cube-reader-pops-from-the-end", F + "cube.py", r"tmp\[counter\] = float\(words\.pop\(0\)\)", "tmp[counter] = float(words.pop())", "C03-R20")
M("C03", "vasp-grid-loops-interchanged", F + "chgcar.py", r"    for i2 in range\(shape\[2\]\):\n        for i1 in range\(shape\[1\]\):\n            for i0 in range\(shape\[0\]\):", "    for i0 in range(shape[0]):\n        for i1 in range(shape[1]):\n            for i2 in range(shape[2]):", "C03-R20")
M("C03", "cube-writer-breaks-line-after-seven", F + "cube.py", r"        if counter % 6 == 5:", "        if counter % 7 == 6:", "C03-R20")

M("C05", "psi4-f-factor-sqrt5", F + "molden.py", r"np\.array\(\[1, 1, 1\]\)\) / np\.sqrt\(15\.0\)", "np.array([1, 1, 1])) / np.sqrt(5.0)", "C05-R10")
M("C05", "turbomole-correction-applied-to-pure-shells", F + "molden.py", r'            if angmom == 2 and kind == "c":\n                correction = 1\.0 / np\.sqrt\(3\.0\)', '            if angmom == 2 and kind == "p":\n                correction = 1.0 / np.sqrt(3.0)', "C05-R10")
M("C05", "orca-correction-multiplied", F + "molden.py", r"(def _fix_obasis_orca(?:.|\n)*?)fixed_shell\.coeffs\[iprim, 0\] /= correction", "\\1fixed_shell.coeffs[iprim, 0] *= correction", "C05-R10")
M("C05", "orca-basis-keeps-input-conventions", F + "molden.py", r"return MolecularBasis\(fixed_shells, orca_conventions, obasis\.primitive_normalization\)", "return MolecularBasis(fixed_shells, obasis.conventions, obasis.primitive_normalization)", "C05-R10")

M("C02", "fcidump-strict-pair-order", F + "fcidump.py", r"\(i0 \* \(i0 \+ 1\)\) / 2 \+ i1 >= \(i2 \* \(i2 \+ 1\)\) / 2 \+ i3", "(i0 * (i0 + 1)) / 2 + i1 > (i2 * (i2 + 1)) / 2 + i3", "C02-R22")
M("C02", "fcidump-inner-loop-one-short", F + "fcidump.py", r"                for i3 in range\(i2 \+ 1\):", "                for i3 in range(i2):", "C02-R22")
M("C02", "fcidump-writer-index-order", F + "fcidump.py", r"value = two_mo\[i0, i2, i1, i3\]", "value = two_mo[i0, i1, i2, i3]", "C02-R22")

M("C03", "wfn-regrouping-permutation-stride", F + "wfn.py", r"permutation\[ibasis \+ irep \* ncart \+ ifn\] = ibasis \+ irep \+ i \* ncon", "permutation[ibasis + irep * ncart + ifn] = ibasis + irep * ncart + i", "C03-R21")

# ----------------------------------------------------------------------------- additions (fourth round, batch 6)
M("C07", "extxyz-title-parsed-after-putback", F + "extxyz.py", r"    atom_columns, title_data = _parse_title\(title_line, lit\)\n    lit\.back\(title_line\)\n    lit\.back\(atom_line\)\n", "    lit.back(title_line)\n    lit.back(atom_line)\n    atom_columns, title_data = _parse_title(title_line, lit)\n", "C07-R8")
M("C07", "mol2-atom-loop-skips-blank-lines", F + "mol2.py", r"(    for i in range\(natoms\):\n        words = next\(lit\)\.split\(\)\n)", "\\1        if not words:\n            continue\n", "C07-R9")
M("C08", "json-basis-schema-not-rejected", F + "json_qcschema.py", r'    if schema_name == "qcschema_basis":\n        raise PrepareDumpError\(f"\{schema_name\} not yet implemented in IOData\.", filename\)\n', "", "C08-R7")
M("C08", "json-missing-schema-name-not-rejected", F + "json_qcschema.py", r'    if "schema_name" not in data\.extra:\n        raise PrepareDumpError\(\n            "Cannot write qcschema file without \'schema_name\' defined\.", filename\n        \)\n    schema_name = data\.extra\["schema_name"\]\n', '    schema_name = data.extra.get("schema_name")\n', "C08-R7")
M("C08", "decorator-changes-warning-filters", "iodata/api.py", r"            with warnings\.catch_warnings\(record=True\) as warning_list:\n", "            with warnings.catch_warnings(record=True) as warning_list:\n                warnings.simplefilter(\"always\")\n", "C08-R1")
M("C09", "input-fields-merged-into-caller-dicts", "iodata/inputs/common.py", r"    fields\.update\(user_fields\)\n", "    for key, value in user_fields.items():\n        if isinstance(value, dict) and isinstance(fields.get(key), dict):\n            fields[key].update(value)\n        else:\n            fields[key] = value\n", "C09-R1")
M("C10", "wfn-conversion-only-for-f-shells", F + "wfn.py", r"    permutation, signs = convert_conventions\(data\.obasis, CONVENTIONS\)\n    raw_coeffs = data\.mo\.coeffs\[permutation\] \* signs\.reshape\(-1, 1\)\n", "    raw_coeffs = data.mo.coeffs\n    if max(shell.angmoms[0] for shell in data.obasis.shells) > 2:\n        permutation, signs = convert_conventions(data.obasis, CONVENTIONS)\n        raw_coeffs = raw_coeffs[permutation] * signs.reshape(-1, 1)\n", "C10-R9")
M("C10", "wfx-scales-in-source-order", F + "wfx.py", r"obasis = MolecularBasis\(shells, CONVENTIONS, data\.obasis\.primitive_normalization\)", "obasis = MolecularBasis(shells, data.obasis.conventions, data.obasis.primitive_normalization)", "C10-R8")
M("C12", "norbab-validator-compares-stored-counts", "iodata/orbitals.py", r'        norb_other = mo\.norbb if \(attribute\.name == "norba"\) else mo\.norba\n        if value != norb_other:', "        if mo.norba != mo.norbb:", "C12-R1")
M("C12", "spinpol-guess-before-explicit-aminusb", "iodata/orbitals.py", r"            if self\.occs_aminusb is None:\n                # heuristics \.\.\.\n                if \(self\.occs == self\.occs\.astype\(int\)\)\.all\(\):", "            if True:\n                # heuristics ...\n                if (self.occs == self.occs.astype(int)).all():", "C12-R5", also=[(r"                # restricted closed-shell natural orbitals\n                return 0\.0\n", "                # restricted closed-shell natural orbitals\n                if self.occs_aminusb is None:\n                    return 0.0\n")])
M("C13", "gromacs-putback-in-reading-order", F + "gromacs.py", r"        lit\.back\(line\)\n        for skipped_line in reversed\(skipped\):\n            lit\.back\(skipped_line\)\n", "        for skipped_line in skipped:\n            lit.back(skipped_line)\n        lit.back(line)\n", "C13-R11")
M("C13", "sdf-blank-lines-dropped", F + "sdf.py", r"        lit\.back\(line\)\n        for skipped_line in reversed\(skipped\):\n            lit\.back\(skipped_line\)\n", "        lit.back(line)\n", "C13-R11")
T("C13", "gromacs-putback-in-one-loop", F + "gromacs.py", r"        lit\.back\(line\)\n        for skipped_line in reversed\(skipped\):\n            lit\.back\(skipped_line\)\n", "        for pending in reversed([*skipped, line]):\n            lit.back(pending)\n")
M("C14", "fchk-segmentation-only-with-orbitals", F + "fchk.py", r"(def prepare_dump(?:.|\n)*?)\n    return prepare_segmented\(([^\n]*)\)\n", "\\1\n    if data.mo is not None:\n        return prepare_segmented(\\2)\n    return data\n", "C14-R6")
M("C17", "decorator-stores-marked-up-names", "iodata/docstrings.py", r"    ifpresent = ifpresent or \[\]\n", "    ifpresent = [f\"``{word}``\" for word in ifpresent or []]\n", "C17-R7")
M("C01", "molekel-no-leading-separator", F + "molekel.py", r"    iatom_last = 0\n", "    iatom_last = data.obasis.shells[0].icenter\n", "C01-R12")
T("C01", "molekel-separators-by-while-loop", F + "molekel.py", r"        for _ in range\(iatom_new - iatom_last\):\n            f\.write\(\"\$\$\\n\"\)\n", "        while iatom_last < iatom_new:\n            f.write(\"$$\\\\n\")\n            iatom_last += 1\n")
M("C01", "wfx-restricted-labels-by-occupation", F + "wfx.py", r'mo_spin = \["Alpha and Beta "\] \* len\(data\.mo\.occs\)', 'mo_spin = ["Alpha and Beta " if occ > 1.0 else "Alpha" for occ in data.mo.occs]', "C01-R13")
M("C02", "wfn-spin-template-too-short", F + "wfn.py", r'FMT_SPIN, STEP_SPIN = _format_helper_section\("", 0, "\{:2d\}", 40\)', 'FMT_SPIN, STEP_SPIN = _format_helper_section("", 0, "{:2d}", 20)', "C02-R16")
M("C02", "molekel-single-separator-per-change", F + "molekel.py", r"        for _ in range\(iatom_new - iatom_last\):\n            f\.write\(\"\$\$\\n\"\)\n", "        if iatom_new != iatom_last:\n            f.write(\"$$\\\\n\")\n", "C02-R15")
for _p, _r in (("C04", "R6"), ("C05", "R12")):
    M(_p, "molden-atoms-unit-exact-match", F + "molden.py", r'            if "au" in line:\n                cunit = 1\.0\n            elif "angs" in line:\n                cunit = angstrom\n', '            cunit = angstrom if line[len("[atoms]") :].strip() == "angs" else 1.0\n', f"{_p}-{_r}")
T("C04", "molden-atoms-unit-by-regex-free-search", F + "molden.py", r'            if "au" in line:\n                cunit = 1\.0\n            elif "angs" in line:\n                cunit = angstrom\n', '            cunit = angstrom if line.find("angs") >= 0 and line.find("au") < 0 else 1.0\n')
M("C06", "screening-after-prefactor", "iodata/overlap.py", r"                        prefactor = np\.exp\(-a0 \* a1 / at \* rij_norm_sq\)\n                        if prefactor < 1e-15:\n                            continue\n", "                        prefactor = (np.pi / at) ** (3 / 2) * np.exp(-a0 * a1 / at * rij_norm_sq)\n                        if prefactor < 1e-15:\n                            continue\n", "C06-R9")
M("C06", "distance-from-expanded-squares", "iodata/overlap.py", r"            rij = r0 - r1\n            rij_norm_sq = np\.dot\(rij, rij\)\n", "            rij_norm_sq = np.dot(r0, r0) - 2 * np.dot(r0, r1) + np.dot(r1, r1)\n", "C06-R10")
T("C06", "distance-inline-difference", "iodata/overlap.py", r"            rij = r0 - r1\n            rij_norm_sq = np\.dot\(rij, rij\)\n", "            rij_norm_sq = np.dot(r0 - r1, r0 - r1)\n")
M("C11", "post-init-replays-with-orbitals", "iodata/iodata.py", r"        if self\.mo is None:\n            if self\._charge is not None:\n                self\.charge = self\._charge\n            if self\._nelec is not None:\n                self\.nelec = self\._nelec\n            if self\._spinpol is not None:\n                self\.spinpol = self\._spinpol\n", "        if self._charge is not None:\n            self.charge = self._charge\n        if self._nelec is not None:\n            self.nelec = self._nelec\n        if self._spinpol is not None:\n            self.spinpol = self._spinpol\n", "C11-R4")
# behaviour-preserving: a stored charge next to core charges is converted lazily by the atcorenums getter / setter
T("C11", "post-init-skips-charge", "iodata/iodata.py", r"            if self\._charge is not None:\n                self\.charge = self\._charge\n", "")
T("C11", "post-init-skips-nelec", "iodata/iodata.py", r"            if self\._nelec is not None:\n                self\.nelec = self\._nelec\n", "")
M("C03", "orcalog-first-geometry-kept", F + "orcalog.py", r'            result\["atnums"\], result\["atcoords"\] = _helper_geometry\(lit, natom\)\n', '            atnums_, atcoords_ = _helper_geometry(lit, natom)\n            result.setdefault("atnums", atnums_)\n            result.setdefault("atcoords", atcoords_)\n', "C03-R12")

for _p in ("C01", "C02"):
    T(_p, "molekel-two-step-conversion", F + "molekel.py", r"        coeff = data\.mo\.coeffsa\[permutation\] \* signs\.reshape\(-1, 1\)\n", "        coeff = data.mo.coeffsa[permutation]\n        coeff = coeff * signs.reshape(-1, 1)\n")
    M(_p, "molekel-beta-without-permutation", F + "molekel.py", r"data\.mo\.coeffsb\[permutation\] \* signs\.reshape\(-1, 1\)", "data.mo.coeffsb * signs.reshape(-1, 1)", "%s-%s" % (_p, "R9" if _p == "C01" else "R10"))
    M(_p, "molden-restricted-without-signs", F + "molden.py", r"data\.mo\.coeffs\[permutation\] \* signs\.reshape\(-1, 1\)", "data.mo.coeffs[permutation]", "%s-%s" % (_p, "R9" if _p == "C01" else "R10"))
M("C03", "molden-5d-prefix-swallows-5d10f", F + "molden.py", r'line\.startswith\(\("\[5d\]", "\[5d7f\]"\)\)', 'line.startswith("[5d")', "C03-R11")
M("C05", "molden-5d-prefix-swallows-5d10f", F + "molden.py", r'line\.startswith\(\("\[5d\]", "\[5d7f\]"\)\)', 'line.startswith("[5d")', "C05-R11")
T("C05", "molden-tag-chain-reordered", F + "molden.py", r'        if line\.startswith\(\("\[5d\]", "\[5d7f\]"\)\):\n            pure_angmoms\.add\(2\)\n            pure_angmoms\.add\(3\)\n        elif line\.lower\(\)\.startswith\("\[7f\]"\):\n            pure_angmoms\.add\(3\)\n        elif line\.lower\(\)\.startswith\("\[5d10f\]"\):\n            pure_angmoms\.add\(2\)\n', '        if line.startswith("[5d10f]"):\n            pure_angmoms.add(2)\n        elif line.startswith("[5d"):\n            pure_angmoms.update((2, 3))\n        elif line.startswith("[7f]"):\n            pure_angmoms.add(3)\n')
T("C20", "eigh-transposed-metric", "iodata/utils.py", r"eigh\(sds, overlap\)", "eigh(sds, overlap.T)")

_VOL_OLD = r"    nvecs = cellvecs\.shape\[0\]\n(?:.|\n)*?    raise ValueError\(\"Argument cellvecs should be of shape \(x, 3\), where x is in \{1, 2, 3\}\"\)\n"
_VOL_NEW = "    cellvecs = np.atleast_2d(cellvecs)\n    if cellvecs.shape[0] not in (1, 2, 3):\n        raise ValueError(\"Argument cellvecs should be of shape (x, 3)\")\n    gram = np.dot(%s)\n    return np.sqrt(abs(np.linalg.det(gram)))\n"
# (the root of the Gram determinant is the right quantity, but for two nearly dependent vectors the 2 x 2 determinant
# is a difference of large squares: since batch 9 -- seed C20p -- the accuracy on such pairs is part of C20-R3, and this
# former twin is a mutant)
M("C20", "volume-as-gram-determinant", "iodata/utils.py", _VOL_OLD, _VOL_NEW % "cellvecs, cellvecs.T", "C20-R3")
M("C20", "volume-gram-of-columns", "iodata/utils.py", _VOL_OLD, _VOL_NEW % "cellvecs.T, cellvecs", "C20-R3")
M("C20", "volume-signed-triple-product", "iodata/utils.py", r"return abs\(np\.linalg\.det\(cellvecs\)\)", "return np.dot(cellvecs[0], np.cross(cellvecs[1], cellvecs[2]))", "C20-R3")
T("C20", "volume-abs-triple-product", "iodata/utils.py", r"return abs\(np\.linalg\.det\(cellvecs\)\)", "return abs(np.dot(cellvecs[0], np.cross(cellvecs[1], cellvecs[2])))")
M("C20", "volume-area-from-dot", "iodata/utils.py", r"np\.linalg\.norm\(np\.cross\(cellvecs\[0\], cellvecs\[1\]\)\)", "abs(np.dot(cellvecs[0], cellvecs[1]))", "C20-R3")

# ----------------------------------------------------------------------------- additions (sixth round, batch 7)
_VOLX = r"        return abs\(np\.linalg\.det\(cellvecs\)\)"
M("C20", "volume-orthogonal-shortcut-first-superdiagonal", "iodata/utils.py", _VOLX, "        gram = np.dot(cellvecs, cellvecs.T)\n        if not np.diagonal(gram, offset=1).any():\n            return np.sqrt(np.diagonal(gram).prod())\n        return abs(np.linalg.det(cellvecs))", "C20-R3")
T("C20", "volume-orthogonal-shortcut-all-offdiagonals", "iodata/utils.py", _VOLX, "        gram = np.dot(cellvecs, cellvecs.T)\n        if not (gram - np.diag(np.diagonal(gram))).any():\n            return np.sqrt(np.diagonal(gram).prod())\n        return abs(np.linalg.det(cellvecs))")
M("C20", "four-index-skips-zero", "iodata/utils.py", r"(def set_four_index_element\([^)]*\):\n(?:    .*\n|\n)*?    \"\"\"\n)", r"\1    if value == 0.0:\n        return\n", "C20-R1")
M("C11", "charge-getter-truth-test", "iodata/iodata.py", r"        if self\.atcorenums is None or self\.nelec is None:\n            return self\._charge\n", "        if self.atcorenums is None or not self.nelec:\n            return self._charge\n", "C11-R7")
M("C11", "charge-setter-rounds", "iodata/iodata.py", r"            self\.nelec = self\.atcorenums\.sum\(\) - charge", "            self.nelec = float(np.round(self.atcorenums.sum() - charge))", "C11-R7")
M("C12", "occsa-setter-keeps-callers-array", "iodata/orbitals.py", r"            occsa = np\.array\(occsa\)", "            occsa = np.asarray(occsa)", "C12-R4")
T("C12", "occsa-setter-copies-explicitly", "iodata/orbitals.py", r"            occsa = np\.array\(occsa\)", "            occsa = np.asarray(occsa).copy()")
M("C13", "pdb-conect-membership-guard", F + "pdb.py", r"                bonds\.append\(\[serials\[serial0\], serials\[serial1\], bond2num\[\"un\"\]\]\)", "                if serial0 in serials and serial1 in serials:\n                    bonds.append([serials[serial0], serials[serial1], bond2num[\"un\"]])", "C13-R12")
# a LoadError raised inside the record loop is taken by pdb.load_many for the end of the sequence: not a twin
M("C13", "pdb-conect-complaint-swallowed-by-load-many", F + "pdb.py", r"                bonds\.append\(\[serials\[serial0\], serials\[serial1\], bond2num\[\"un\"\]\]\)", "                if serial0 in serials and serial1 in serials:\n                    bonds.append([serials[serial0], serials[serial1], bond2num[\"un\"]])\n                else:\n                    raise LoadError(\"CONECT record refers to an unknown atom.\", lit)", "C13-R3")
M("C07", "cube-reads-raw-handle", F + "cube.py", r"            words = next\(lit\)\.split\(\)", "            words = lit.fh.readline().split()", "C07-R11")
M("C07", "select-by-name-without-feature-test", "iodata/api.py", r"            if any\(fnmatch\(basename, pattern\) for pattern in format_module\.PATTERNS\) and hasattr\(\n                format_module, attrname\n            \):", "            if any(fnmatch(basename, pattern) for pattern in format_module.PATTERNS):", "C07-R12")
T("C07", "select-explicit-format-early-returns", "iodata/api.py", r"    if fmt in FORMAT_MODULES:\n        format_module = FORMAT_MODULES\[fmt\]\n        if not hasattr\(format_module, attrname\):\n            raise FileFormatError\(f\"Format \{fmt\} does not support feature \{attrname\}\", filename\)\n        return format_module\n    raise FileFormatError\(f\"Unknown file format \{fmt\}\", filename\)", "    if fmt not in FORMAT_MODULES:\n        raise FileFormatError(f\"Unknown file format {fmt}\", filename)\n    format_module = FORMAT_MODULES[fmt]\n    if not hasattr(format_module, attrname):\n        raise FileFormatError(f\"Format {fmt} does not support feature {attrname}\", filename)\n    return format_module")
M("C02", "fchk-writer-uses-reader-quadrupole-order", F + "fchk.py", r"data\.moments\[\(2, \"c\"\)\]\[\[0, 3, 5, 1, 2, 4\]\]", "data.moments[(2, \"c\")][[0, 3, 4, 1, 5, 2]]", "C02-R23")
T("C02", "fchk-quadrupole-orders-as-constants", F + "fchk.py", r"data\.moments\[\(2, \"c\"\)\]\[\[0, 3, 5, 1, 2, 4\]\]", "data.moments[(2, \"c\")][QUADRUPOLE_TO_FCHK]", also=[(r"fchk\[\"Quadrupole Moment\"\]\[\[0, 3, 4, 1, 5, 2\]\]", "fchk[\"Quadrupole Moment\"][QUADRUPOLE_FROM_FCHK]"), (r"\n__all__ = ", "\nQUADRUPOLE_FROM_FCHK = [0, 3, 4, 1, 5, 2]\nQUADRUPOLE_TO_FCHK = [0, 3, 5, 1, 2, 4]\n\n__all__ = ")])
M("C03", "wfx-gradient-rows-in-file-order", F + "wfx.py", r"        result\[\"atgradient\"\]\[index\] = gradient_mix\[:, 1:\]\.astype\(float\)", "        result[\"atgradient\"][: len(gradient_mix)] = gradient_mix[:, 1:].astype(float)", "C03-R6")
T("C03", "wfx-gradient-rows-by-dictionary", F + "wfx.py", r"        index = \[result\[\"nuclear_names\"\]\.index\(atom\) for atom in gradient_atoms\]", "        positions = {name: i for i, name in enumerate(result[\"nuclear_names\"])}\n        index = [positions[atom] for atom in gradient_atoms]")
M("C03", "gro-box-scaled-before-offdiagonals", F + "gromacs.py", r"    if len\(words\) == 9:", "    cell *= nanometer\n    if len(words) == 9:", "C03-R13", also=[(r"        cell\[2, 1\] = float\(words\[8\]\)\n    cell \*= nanometer\n", "        cell[2, 1] = float(words[8])\n")])
M("C01", "molden-mo-reader-swallows-next-header", F + "molden.py", r"        if \"\[\" in line:\n            lit\.back\(line\)\n            break", "        if \"[\" in line:\n            break", "C01-R15")
M("C02", "xyz-dictionary-column-replaces-dictionary", F + "xyz.py", r"            data\.setdefault\(attrname, \{\}\)\[keyname\] = array", "            data[attrname] = {keyname: array}", "C02-R24")
T("C02", "xyz-dictionary-column-explicit-create", F + "xyz.py", r"            data\.setdefault\(attrname, \{\}\)\[keyname\] = array", "            if attrname not in data:\n                data[attrname] = {}\n            data[attrname][keyname] = array")
M("C08", "molekel-guard-exempts-ghosts", F + "molekel.py", r"    if data\.atcorenums is not None and not np\.array_equal\(data\.atcorenums, data\.atnums\):", "    if data.atcorenums is not None and not np.array_equal(data.atcorenums[data.atcorenums != 0], data.atnums[data.atcorenums != 0]):", "C08-R5")
M("C18", "fchk-charges-in-set-order", F + "fchk.py", r"    if \"mulliken\" in data\.atcharges:\n        _dump_real_arrays\(\"Mulliken Charges\", data\.atcharges\[\"mulliken\"\], f\)\n", "    for key in data.atcharges.keys() & {\"mulliken\"}.union():\n        _dump_real_arrays(\"Mulliken Charges\", data.atcharges[key], f)\n", "C18-R7")
M("C09", "preflight-funnel-narrowed", "iodata/api.py", r"            data = format_module\.prepare_dump\(data, allow_changes, filename\)\n    except PrepareDumpError:\n        raise\n    except Exception as exc:", "            data = format_module.prepare_dump(data, allow_changes, filename)\n    except PrepareDumpError:\n        raise\n    except (TypeError, ValueError, KeyError, AttributeError) as exc:", "C09-R7")
M("C13", "mol2-one-try-around-the-record-loop", F + "mol2.py", r"    while True:\n        try:\n            line = next\(lit\)\n        except StopIteration:\n            break\n        if len\(line\) > 1:\n            words = line\.split\(\)\n            if words\[0\] == \"@<TRIPOS>MOLECULE\":", "    while True:\n        try:\n            line = next(lit)\n            if len(line) > 1 and line.split()[0] == \"@<TRIPOS>BOND\":\n                result[\"bonds\"] = _load_helper_bonds(lit, nbonds)\n                continue\n        except StopIteration:\n            break\n        if len(line) > 1:\n            words = line.split()\n            if words[0] == \"@<TRIPOS>MOLECULE\":", "C13-R13")
M("C06", "segmentation-remembers-last-result", "iodata/convert.py", r"    return attrs\.evolve\(obasis, shells=shells\)", "    result = attrs.evolve(obasis, shells=shells)\n    _LAST[:] = [obasis, keep_sp, result]\n    return result", "C06-R8", also=[(r"(def convert_to_segmented\([^)]*\)[^\n]*:\n(?:    .*\n|\n)*?    \"\"\"\n)", r"\1    if _LAST and _LAST[0] is obasis and _LAST[1] == keep_sp:\n        return _LAST[2]\n"), (r"\ndef convert_to_segmented", "\n_LAST = []\n\n\ndef convert_to_segmented")])

T("C13", "pdb-record-head-through-helper", F + "pdb.py", r"        try:\n            line = next\(lit\)\n        except StopIteration:\n            break\n        # If the PDB file has a title", "        try:\n            line = _next_record(lit)\n        except StopIteration:\n            break\n        # If the PDB file has a title", also=[(r"\ndef _parse_pdb_conect_line\(line\):", "\ndef _next_record(lit):\n    return next(lit)\n\n\ndef _parse_pdb_conect_line(line):")])

M("C03", "vasp-scaling-dropped-from-cartesian-positions", F + "chgcar.py", r"atcoords = np\.array\(atcoords\) \* angstrom \* scaling", "atcoords = np.array(atcoords) * angstrom", "C03-R22")
M("C04", "vasp-scaling-dropped-from-cell", F + "chgcar.py", r"    cellvecs \*= angstrom \* scaling", "    cellvecs *= angstrom", "C04-R7")
M("C03", "vasp-direct-from-the-wrong-side", F + "chgcar.py", r"atcoords = np\.dot\(np\.array\(atcoords\), cellvecs\)", "atcoords = np.dot(cellvecs, np.array(atcoords).T).T", "C03-R22")
T("C03", "vasp-direct-by-einsum", F + "chgcar.py", r"atcoords = np\.dot\(np\.array\(atcoords\), cellvecs\)", "atcoords = np.einsum(\"ai,ij->aj\", np.array(atcoords), cellvecs)")
M("C03", "vasp-counts-zipped-reversed", F + "chgcar.py", r"    for n, c in zip\(vasp_atnums, vasp_counts\):", "    for n, c in zip(vasp_atnums, reversed(vasp_counts)):", "C03-R22")
M("C02", "cube-header-axes-columns", F + "cube.py", r"        x, y, z = cube\.axes\[i\]", "        x, y, z = cube.axes[:, i]", "C02-R25")
M("C02", "cube-header-core-charge-column", F + "cube.py", r"\{atnums\[i\]:5d\} \{q: 11\.6f\}", "{int(q):5d} {atnums[i]: 11.6f}", "C02-R25")
M("C02", "poscar-fractional-with-untransposed-inverse", F + "poscar.py", r"gvecs = np\.linalg\.inv\(data\.cellvecs\)\.T", "gvecs = np.linalg.inv(data.cellvecs)", "C02-R26")
T("C02", "poscar-fractional-by-solve-free-form", F + "poscar.py", r"            row = np\.dot\(gvecs, data\.atcoords\[index\]\)", "            row = np.dot(data.atcoords[index], gvecs.T)")

M("C01", "fchk-pure-shell-sign-lost", F + "fchk.py", r"shell_types\.append\(-1 \* shell\.angmoms\[0\]\)", "shell_types.append(shell.angmoms[0])", "C01-R17")
M("C01", "fchk-sp-coefficients-not-padded", F + "fchk.py", r"                else:\n                    sp_coeffs\.extend\(\[0\.0\] \* shell\.nexp\)\n", "", "C01-R17")
T("C01", "fchk-reader-pure-test-below-sp-code", F + "fchk.py", r"\[\"p\" if shell_types\[i\] < 0 else \"c\"\]", "[\"p\" if shell_types[i] < -1 else \"c\"]")
M("C01", "fchk-reader-pure-kind-inverted", F + "fchk.py", r"\[\"p\" if shell_types\[i\] < 0 else \"c\"\]", "[\"p\" if shell_types[i] > 0 else \"c\"]", "C01-R17")
M("C02", "fchk-reader-counter-per-shell", F + "fchk.py", r"        counter \+= n\n    del shell_map", "        counter += 1\n    del shell_map", "C02-R27")
T("C01", "fchk-shell-types-by-comprehension-free-loop", F + "fchk.py", r"shell_types\.append\(-1 \* shell\.angmoms\[0\]\)", "shell_types.append(-int(shell.angmoms[0]))")

M("C01", "wfn-type-numbers-skip-absent-angmom", F + "wfn.py", r"    for angmom in range\(max\(\[shell\.angmoms\[0\] for shell in obasis\.shells\]\) \+ 1\):", "    for angmom in sorted({shell.angmoms[0] for shell in obasis.shells}):", "C01-R18")
M("C01", "wfn-centres-zero-based", F + "wfn.py", r"cntrs = \[shell\.icenter \+ 1 for shell", "cntrs = [shell.icenter for shell", "C01-R18")
M("C01", "wfn-type-count-from-zero", F + "wfn.py", r"    angmom_prim = \{\}\n    count = 1\n", "    angmom_prim = {}\n    count = 0\n", "C01-R18")
T("C01", "wfn-type-numbers-from-cumulative-sizes", F + "wfn.py", r"        count \+= len\(obasis\.conventions\[angmom, \"c\"\]\)\n", "        count = count + (angmom + 1) * (angmom + 2) // 2\n")

M("C02", "fchk-esp-and-npa-labels-swapped", F + "fchk.py", r"_dump_real_arrays\(\"ESP Charges\", data\.atcharges\[\"esp\"\], f\)", "_dump_real_arrays(\"ESP Charges\", data.atcharges[\"npa\"], f)", "C02-R29")
M("C02", "fchk-reader-hirshfeld-from-type-7", F + "fchk.py", r"atcharges\[\"hirshfeld\"\] = fchk\[\"Type 6 Charges\"\]", "atcharges[\"hirshfeld\"] = fchk[\"Type 7 Charges\"]", "C02-R29")
M("C02", "fchk-nuclear-charges-from-atnums", F + "fchk.py", r"_dump_real_arrays\(\"Nuclear charges\", data\.atcorenums, f\)", "_dump_real_arrays(\"Nuclear charges\", data.atnums.astype(float), f)", "C02-R29")
M("C02", "fchk-spin-density-under-total-label", F + "fchk.py", r"            title = \"Spin SCF Density\"", "            title = \"Total SCF Density\"", "C02-R29")
T("C02", "fchk-charges-written-from-an-ordered-table", F + "fchk.py", r"    if \"mulliken\" in data\.atcharges:\n        _dump_real_arrays\(\"Mulliken Charges\", data\.atcharges\[\"mulliken\"\], f\)\n    if \"esp\" in data\.atcharges:\n        _dump_real_arrays\(\"ESP Charges\", data\.atcharges\[\"esp\"\], f\)\n", "    for key_, label_ in ((\"mulliken\", \"Mulliken Charges\"), (\"esp\", \"ESP Charges\")):\n        if key_ in data.atcharges:\n            _dump_real_arrays(label_, data.atcharges[key_], f)\n")

T("C13", "gro-frame-parser-shared-by-load-one-and-load-many", F + "gromacs.py", r"def load_one\(lit: LineIterator\) -> dict:\n    \"\"\"Do not edit this docstring\. It will be overwritten\.\"\"\"\n    data = _helper_read_frame\(lit\)", "def load_one(lit: LineIterator) -> dict:\n    \"\"\"Do not edit this docstring. It will be overwritten.\"\"\"\n    return _load_frame(lit)\n\n\ndef _load_frame(lit: LineIterator) -> dict:\n    \"\"\"Read one frame.\"\"\"\n    data = _helper_read_frame(lit)", also=[(r"        yield load_one\(lit\)", "        yield _load_frame(lit)")])

M("C13", "mol2-header-complaint-swallowed-as-end", F + "mol2.py", r"                natoms = int\(words\[0\]\)\n", "                natoms = int(words[0])\n                if natoms <= 0:\n                    raise LoadError(\"A molecule needs at least one atom.\", lit)\n", "C13-R3")


def _run_one(args):
    spec, repo = args
    from .cli import run_property
    from .report import load_known, match_known

    t0 = time.time()
    path = os.path.join(repo, spec["rel"])
    try:
        src = open(path, encoding="utf-8").read()
    except OSError:
        return spec, "not-applicable", "file missing", 0.0
    new, n = re.subn(spec["pattern"], spec["repl"], src, count=spec["count"], flags=spec["flags"])
    if n == 0 or new == src:
        return spec, "not-applicable", "anchor not found", 0.0
    for pat2, repl2 in spec.get("also", ()):
        new, n2 = re.subn(pat2, repl2, new, count=1, flags=spec["flags"])
        if n2 == 0:
            return spec, "not-applicable", "secondary anchor not found", 0.0
    try:
        ast.parse(new)
    except SyntaxError as exc:
        return spec, "invalid", f"mutant does not parse: {exc}", 0.0
    try:
        ctx = run_property(spec["prop"], "quick", repo, overlay={spec["rel"]: new}, quiet=True)
    except AnalysisError as exc:
        return spec, ("analysis-error" if not spec["twin"] else "twin-analysis-error"), str(exc)[:200], time.time() - t0
    known = load_known()
    newf = [f for f in ctx.findings if match_known(f, known) is None]
    rules = sorted({f"{f.prop}-{f.rule}" for f in newf})
    dt = time.time() - t0
    if spec["twin"]:
        return spec, ("silent" if not newf else "twin-fired"), ", ".join(rules), dt
    if spec["expect"] in rules:
        return spec, "fired", ", ".join(rules), dt
    if rules:
        return spec, "fired-other-rule", ", ".join(rules), dt
    return spec, "missed", "", dt


def run(prop, repo, ctx=None, jobs=None):
    """Run the battery of one property.  Returns (exit_code, summary dict)."""
    specs = [s for s in _SPECS if s["prop"] == prop]
    jobs = jobs or min(16, os.cpu_count() or 4)
    results = []
    with cf.ProcessPoolExecutor(max_workers=jobs) as ex:
        for r in ex.map(_run_one, [(s, repo) for s in specs]):
            results.append(r)
    summary = {"mutants": 0, "fired": 0, "fired_other_rule": 0, "twins": 0, "silent": 0, "not_applicable": 0, "details": []}
    bad = []
    for spec, status, info, dt in results:
        summary["details"].append({"name": spec["name"], "file": spec["rel"], "kind": "twin" if spec["twin"] else "mutant", "expect": spec["expect"], "status": status, "rules": info, "wall_s": round(dt, 2)})
        if status == "not-applicable":
            summary["not_applicable"] += 1
            continue
        if spec["twin"]:
            summary["twins"] += 1
            if status == "silent":
                summary["silent"] += 1
            else:
                bad.append(f"twin {spec['name']} {status}: {info}")
        else:
            summary["mutants"] += 1
            if status == "fired":
                summary["fired"] += 1
            elif status == "fired-other-rule":
                summary["fired_other_rule"] += 1
            else:
                bad.append(f"mutant {spec['name']} {status} (expected {spec['expect']}): {info}")
    print(f"  battery {prop}: {summary['fired']}/{summary['mutants']} mutants flagged by the intended rule"
          f" (+{summary['fired_other_rule']} by another rule), {summary['silent']}/{summary['twins']} twins silent,"
          f" {summary['not_applicable']} not applicable")
    for b in bad:
        print(f"  battery: {b}")
    applicable = summary["mutants"] + summary["twins"]
    code = 0
    if bad:
        code = 2
    if applicable < max(1, len(specs) // 2):
        print(f"  battery {prop}: only {applicable} of {len(specs)} edits are applicable to this tree")
        code = 2
    return code, summary
