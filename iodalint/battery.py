"""Sensitivity battery (thorough tier): in-memory AST mutations of the current tree."""


def run(prop, repo, ctx):
    return 0
